"""C20 - results survive a JSON round trip and always print.

R-Result: every field-kind combination of DfolsApi.tla's ResDomain (46 080 states, incl. infinite entries) is enumerated by TLC and concretised into a synthetic
OptimResults object; plus every result of a whole-solver corpus (all exit flags reachable, diagnostics on/off, sizes either side of the
printing thresholds, NaN fault overlays).  Oracle (harness/strace.roundtrip_ok): to_dict() is plain JSON-serialisable, strict JSON when NaN
replacement is on; from_dict(json.loads(json.dumps(to_dict()))) reproduces every field exactly with None mapped back to NaN; identical str().
Infinite entries are outside the property's letter ("NaN entries"): for them only non-strict serialisation is required.
"""
import json
import os

import numpy as np

from . import vlib, c07, strace, corpus


def build_result(st, seed):
    dfols = vlib.import_dfols()
    import pandas as pd
    from dfols.solver import OptimResults
    rng = np.random.default_rng([seed, 20])
    n = 3
    x = rng.normal(size=n)
    if st["x"] == "nan":
        x[1] = np.nan
    m = 120 if st["resid"] == "long" else 4
    r = rng.normal(size=m)
    if st["resid"] == "nan":
        r[0] = np.nan
    if st["resid"] == "inf":
        r[0], r[1] = np.inf, -np.inf
    jac = None
    if st["jac"] != "none":
        mj = 80 if st["jac"] == "large" else m
        jac = rng.normal(size=(mj, n))
        if st["jac"] == "nan":
            jac[0, 0] = np.nan
        if st["jac"] == "inf":
            jac[0, 0], jac[1, 1] = np.inf, np.nan
    je = None
    if st["jacen"] == "short":
        je = np.arange(1, n + 2, dtype=int)
    elif st["jacen"] == "long":
        je = np.arange(1, 131, dtype=int)
    obj = float(np.dot(rng.normal(size=4), rng.normal(size=4)) ** 2) if st["obj"] == "finite" else (float("inf") if st["obj"] == "inf" else float("nan"))
    s = OptimResults(x, r, obj, jac, 57, 43, int(st["nruns"]), int(st["flag"]), "Some message (flag %d)" % st["flag"], 17, je)
    if st["diag"] != "none":
        rows = 5
        data = {"rho": list(rng.random(rows)), "delta": list(rng.random(rows)), "fk": list(rng.random(rows)), "nf": list(range(rows)),
                "iter_type": ["Safety", "Successful", None, "Very successful", "Safety"], "ratio": [0.5, None, 0.1, 2.0, 0.3],
                "interpolation_error": [None, 1.0, 2.0, 3.0, 4.0]}
        if st["diag"] == "table_nan":
            data["ratio"][0] = float("nan")
            data["fk"][2] = float("nan")
        if st["diag"] == "table_inf":
            data["ratio"][0] = float("-inf")
            data["fk"][2] = float("inf")
            data["delta"][1] = float("nan")
        s.diagnostic_info = pd.DataFrame(data)
    return s


def run_states(args):
    states, seed = args
    vlib.import_dfols()
    bad = []
    for st in states:
        s = build_result(st["st"], seed)
        ok = strace.roundtrip_ok(s)
        if ok and not st["st"]["repl"]:
            # without NaN replacement the dictionary must still be plain data accepted by json.dumps
            try:
                json.dumps(s.to_dict(replace_nan=False))
            except Exception:  # noqa
                ok = False
        if not ok:
            bad.append(st)
    return len(states), bad


def run(tier):
    import multiprocessing as mp
    V = vlib.Verdict("C20", tier)
    wd = vlib.scratch()
    states, r = c07.tlc_states(wd, kinds=("res",))
    if tier == "quick":
        states = states[::8] + [s for s in states if s["st"]["obj"] != "finite" and s["st"]["diag"] != "none"][::11]
    chunks = [states[i::16] for i in range(16)]
    ctx = mp.get_context("fork")
    with ctx.Pool(16) as pool:
        res = pool.map(run_states, [(c, vlib.seed()) for c in chunks])
    nres = sum(n for n, _ in res)
    for _, bad in res:
        for st in bad[:10]:
            V.report(dict(clause="roundtrip_synthetic", site="OptimResults", cls=json.dumps(st["st"], sort_keys=True),
                          what="round trip / printing failed for field kinds %s" % st["st"], instance=dict(kind="res_state", state=st)))
    # results produced by the solver itself
    from . import solverchecks as sc
    rng = np.random.default_rng([vlib.seed(), 20])
    n = 120 if tier == "quick" else 2500
    insts = []
    for i in range(n):
        inst = corpus.general(rng, i + 1)
        k = i % 6
        if k == 0:
            inst["diag"] = True
        elif k == 1:
            inst["fault"] = dict(k=int(rng.integers(1, 12)), kind=corpus._pick(rng, ["nan", "nan1"]))
        elif k == 2:
            inst.update(n=4, m=int(rng.integers(100, 130)), prob="nl", maxfun=12)   # beyond the printing thresholds
        elif k == 3:
            inst.update(maxfun=int(rng.integers(1, 4)))                             # early termination without a Jacobian
        elif k == 4:
            inst.update(prob="zero")
            if i % 12 == 4:
                inst.update(rdtype=corpus._pick(rng, ["int", "float32"]))       # exit at x0 with residuals of another dtype: printing must survive the round trip
        elif k == 5 and i % 12 == 5:
            inst.update(rdtype="float32", prob="lin", maxfun=int(rng.integers(2, 12)))
            inst.pop("nsamples", None)
        inst.pop("noise", None)
        insts.append(inst)
    # results whose arrays went through every growth path of the model: soft and hard restarts that ADD interpolation points (the per-point arrays are
    # re-allocated: evaluation numbers must stay integers), growing sets, with and without the diagnostic table
    for j in range(16 if tier == "quick" else 300):
        nn = 2 + j % 2
        insts.append(dict(id=200000 + j, seed=int(rng.integers(0, 2 ** 31 - 1)), n=nn, m=nn + 1, prob="nl", restarts=["soft", "soft", "hard", "soft"][j % 4], maxunsucc=4, rhoend=1e-2,
                          incnpt=1 + j % 2, maxfun=int(rng.integers(60, 200)), diag=bool(j % 3 == 0), noise_sd=1e-3 if j % 5 == 0 else 0.0))
    tcov, _ = sc.trace_part("C20", insts, V, os.path.join(wd, "traces"))
    cov = dict(states=r["distinct"], transitions=r["generated"], synthetic_results=nres, traces_validated_against_impl=tcov["traces_validated_against_impl"] + nres,
               evaluations=nres + tcov["evaluations"], distinct_nontrivial=nres + tcov["distinct_nontrivial"], solver_outcomes=tcov["outcomes"],
               exhaustive=(tier == "thorough"),
               rule="one synthetic OptimResults per field-kind state of DfolsApi.tla (quick: every 8th state + NaN / infinity / diagnostic corner states) and every result of a solver corpus",
               samples=[dict(state=states[0]), tcov["samples"][0]])
    return V.finish(cov, "model_checking", ["logging.save_xk / save_rk (arrays inside the table) are a documented limitation and are not enabled",
                                            "infinite values are outside the property's letter: strict JSON is only required when no entry is infinite"])
