"""C02 - evaluation budget and counters are exact.
  M  Dfols.tla (TLC, bounded): budget / counter / batch invariants over every value ordering, budget position, restart history (see solverchecks).
  M  Budget.tla (Apalache, UNBOUNDED maxfun and sample requests): the inductive invariant  nf <= maxfun /\ nx <= nf /\ (a run is only started
     with budget left)  -  Init => IndInv  and  IndInv /\ Next => IndInv'.  Reported in the evidence file as a design-level supplement with its
     trusted base; the level claimed stays model_checking.
  R  driven replay (R-Solve): counters compared after every scripted decision.
  T  budget sweeps: maxfun takes every value up to the cost of the unbudgeted reference run.
"""
import os
import re
import shutil
import subprocess
import time

from . import vlib


def apalache(wd, init, length, module="Budget.tla"):
    os.makedirs(wd, exist_ok=True)
    shutil.copy(os.path.join(vlib.SPEC, "Budget.tla"), wd)
    out_dir = os.path.join(wd, "out_%s_%d" % (init, length))
    cmd = ["apalache-mc", "check", "--cinit=ConstInit", "--init=" + init, "--inv=IndInv", "--length=%d" % length, "--out-dir=" + out_dir, module]
    t0 = time.time()
    try:
        p = subprocess.run(cmd, cwd=wd, stdout=subprocess.PIPE, stderr=subprocess.STDOUT, text=True, timeout=600)
        out, rc = p.stdout, p.returncode
    except (subprocess.TimeoutExpired, OSError) as e:
        return dict(ok=False, violated=False, error=repr(e), wall=time.time() - t0, cmd=" ".join(cmd))
    ok = "EXITCODE: OK" in out and "no error" in out.lower()
    violated = bool(re.search(r"invariant.*violat|Found \d+ error|EXITCODE: ERROR \(12\)", out, re.I))
    return dict(ok=ok, violated=violated, wall=round(time.time() - t0, 1), cmd=" ".join(cmd), tail=out.splitlines()[-4:])


def run(tier):
    from . import check
    from . import solverchecks as sc
    V = vlib.Verdict("C02", tier)
    wd = vlib.scratch()
    cov = {}
    a1 = apalache(os.path.join(wd, "apa"), "Init", 0)
    a2 = apalache(os.path.join(wd, "apa"), "IndInv", 1)
    for name, a in (("Init => IndInv", a1), ("IndInv /\\ Next => IndInv'", a2)):
        if a["violated"]:
            V.report(dict(clause="Budget_IndInv", site="Budget.tla", cls=name, what="Apalache: obligation %s fails" % name, instance=dict(kind="apalache", obligation=name)))
        elif not a["ok"]:
            raise vlib.MachineryError("Apalache did not complete obligation %s: %s" % (name, a.get("error") or a.get("tail")))
    cov["apalache"] = dict(module="Budget.tla", obligations=2, discharged=int(a1["ok"]) + int(a2["ok"]), checker_cmds=[a1["cmd"], a2["cmd"]],
                           wall=[a1["wall"], a2["wall"]], trusted_base=["Apalache 0.58 / Z3", "the mapping of the code's evaluating sites to Budget.tla's actions (stated in the module)"])
    cov.update(sc.model_part("C02", tier, V, os.path.join(wd, "model"), with_liveness=True))
    from . import replay_solve as rs
    cov.update(rs.replay_part("C02", tier, V, os.path.join(wd, "replay")))
    insts = sc.corpus_C02(tier)
    tcov, _ = sc.trace_part("C02", insts, V, os.path.join(wd, "traces"))
    cov.update(tcov)
    cov["rule"] = sc.rule_text("C02")
    if tier == "thorough":
        from . import selftest
        cov["binding_selftest"] = selftest.run()
    return V.finish(cov, "model_checking", list(sc.ASSUME) + ["the Apalache result is unbounded in maxfun and request sizes but is about the counter-only abstraction Budget.tla"])
