"""C13 - geometry and convex-constrained step solvers stay inside their regions (see harness/c12.py, harness/kernels.py)."""
import numpy as np

from . import vlib, corpus, c12


def run(tier):
    rng = np.random.default_rng([vlib.seed(), 13])
    n = 60 if tier == "quick" else 900
    insts = []
    for i in range(n):
        k = i % 5
        if k == 0:
            inst = corpus.general(rng, i + 1, allow=("bounds", "npt", "restarts", "regress"))
            corpus.with_bounds(rng, inst)
            inst["maxfun"] = max(inst["maxfun"], 30)
        elif k == 1:
            inst = corpus.proj_inst(rng, i + 1)
        elif k == 2:
            # regularised, bounds or unconstrained
            inst = corpus.base(rng, i + 1, prob="lin", n=int(rng.integers(1, 4)))
            inst["m"] = inst["n"] + 1
            inst.update(reg=str(rng.choice(["l1", "l2"])), lam=float(rng.choice([0.01, 0.1, 1.0])), maxfun=20, timeout=300.0)
            if rng.random() < 0.6:
                inst.update(bounds="both", x0place=["in"] * inst["n"])
                if rng.random() < 0.6:
                    # the regulariser lives in the user's coordinates, the step in scaled ones; small |x| makes the two values of h differ most
                    inst.update(scaling=True, bscale=float(rng.choice([2.0, 5.0])), mag=float(rng.choice([0.1, 1.0])), reg="l1")
        elif k == 4:
            # L1-regularised, scaled to the unit box, solution near the origin of the USER's coordinates (h at the scaled and at the true point differ most)
            inst = corpus.base(rng, i + 1, prob="lin", n=int(rng.integers(2, 5)))
            inst["m"] = inst["n"] + int(rng.integers(1, 4))
            inst.update(reg="l1", lam=float(rng.choice([0.1, 0.5, 1.0])), maxfun=25, timeout=300.0, bounds="both", x0place=["in"] * inst["n"], scaling=True,
                        bscale=float(rng.choice([1.0, 2.0, 5.0])), mag=float(rng.choice([0.03, 0.1, 0.3])))
        else:
            # regularised with projections (the predicted-reduction guard on the projection branch)
            inst = corpus.proj_inst(rng, i + 1)
            inst.pop("restarts", None)
            inst.update(reg="l1", lam=float(rng.choice([0.01, 0.1, 1.0])), maxfun=15, prob="lin", timeout=300.0)
            inst.pop("user_params", None)
        insts.append(inst)
    return c12.run_kernel_check("C13", tier, ["trsbox_geometry", "ctrsbox_pgd", "ctrsbox_sfista", "ctrsbox_geometry"], insts, reps=3 if tier == "quick" else 10,
                                sample_counts={"trsbox_geometry_hi": 300 if tier == "quick" else 5000, "ctrsbox_pgd": 25 if tier == "quick" else 300,
                                               "ctrsbox_sfista": 10 if tier == "quick" else 120, "ctrsbox_geometry": 25 if tier == "quick" else 300,
                                               "sfista_machine_runs": 8 if tier == "quick" else 60})
