"""C13 - geometry and convex-constrained step solvers stay inside their regions (see harness/c12.py, harness/kernels.py)."""
import numpy as np

from . import vlib, corpus, c12


def run(tier):
    rng = np.random.default_rng([vlib.seed(), 13])
    n = 60 if tier == "quick" else 900
    insts = []
    for i in range(n):
        k = i % 4
        if k == 0:
            inst = corpus.general(rng, i + 1, allow=("bounds", "npt", "restarts", "regress"))
            corpus.with_bounds(rng, inst)
            inst["maxfun"] = max(inst["maxfun"], 30)
        elif k == 1:
            inst = corpus.proj_inst(rng, i + 1)
        elif k == 2:
            # regularised, bounds or unconstrained
            inst = corpus.base(rng, i + 1, prob="lin", n=int(rng.integers(1, 4)))
            inst["m"] = inst["n"] + 1
            inst.update(reg=str(rng.choice(["l1", "l2"])), lam=float(rng.choice([0.01, 0.1, 1.0])), maxfun=20, timeout=300.0)
            if rng.random() < 0.5:
                inst.update(bounds="both", x0place=["in"] * inst["n"])
        else:
            # regularised with projections (the predicted-reduction guard on the projection branch)
            inst = corpus.proj_inst(rng, i + 1)
            inst.pop("restarts", None)
            inst.update(reg="l1", lam=float(rng.choice([0.01, 0.1, 1.0])), maxfun=15, prob="lin", timeout=300.0)
            inst.pop("user_params", None)
        insts.append(inst)
    return c12.run_kernel_check("C13", tier, ["trsbox_geometry", "ctrsbox_pgd", "ctrsbox_sfista", "ctrsbox_geometry"], insts, reps=3 if tier == "quick" else 10,
                                sample_counts={"trsbox_geometry_hi": 300 if tier == "quick" else 5000, "ctrsbox_pgd": 25 if tier == "quick" else 300,
                                               "ctrsbox_sfista": 10 if tier == "quick" else 120, "ctrsbox_geometry": 25 if tier == "quick" else 300})
