"""Recorder: runs the real dfols.solve on an instance and produces one event per specification action.

All seams are module globals of dfols that the harness re-binds for the duration of one run (DESIGN.md 4.1):
  dfols.controller.Model      <- RecModel      (subclass; events at method return, in `finally`)
  dfols.solver.Controller     <- RecController (subclass; __setattr__ catches delta/rho writes)
  dfols.solver.solve_main     <- wrapper       (RunBegin / RunEnd)
  dykstra in dfols.{solver,model,controller,trust_region} <- wrapper (Dyk events, per-projector shadow)
  logger "dfols"              <- handler       (the code's own "Function eval i at point j" numbering)
  user objfun / nsamples / projections are the harness's own functions (Call, NSamples events).
Nothing in /repo is modified.  Wrappers pass arguments and results through untouched.

Every class that stands for a numerical inequality is computed here, next to the inequality and its tolerance:
  pos[j]   position of x_j w.r.t. the caller's own bound arrays, exact binary64 comparisons:
           0 below lower | 1 == lower | 2 strictly inside | 3 == upper | 4 above upper      (C01, C09 box part)
  xok      |x_slot(user coords) - x_call|_inf <= 256*eps*max(1,|x|_inf,|xbase|_inf)  "rounding of the base-point arithmetic" (C03)
  rok      stored residual == mean of the first ns residual vectors returned at that point, rtol 1e-12 (exact for ns = 1) (C03, C17)
  ook      stored objective == dot(stored r, stored r) + h(x), rtol 1e-12                      (C03, C17)
  feas     max_i dist(x, set_i) <= sqrt(p*tol) with p = user sets + box, tol = dykstra.d_tol   (C09, C15)
"""
import hashlib
import json
import logging
import math
import os
import signal
import warnings

import numpy as np

from . import vlib
from . import problems

EPS = np.finfo(float).eps
NAN = -999999
KERNEL_DYK_CAP = 25


class HangError(BaseException):
    pass


class WrapperError(BaseException):
    """Raised when the recorder itself fails: machinery failure, never a solver verdict."""


def msg_class(msg):
    m = msg or ""
    table = [("sufficiently small", "small"), ("rho has reached rhoend", "rhoend"), ("MAXFUN", "maxfun"),
             ("within noise level", "noise"), ("maximum number of unsuccessful restarts", "unsucc"),
             ("slow iterations", "slow"), ("false successful", "falsesucc"), ("Singular matrix", "linalg"),
             ("model increase", "trinc"), ("multiple constraints are active", "trinc"), ("NaN received", "nan"),
             ("Auto-detected", "auto"), ("not finite", "nonfinite"), ("bad input", "input")]
    for k, v in table:
        if k in m:
            return v
    return "other"


def pos_classes(x, lo, hi):
    out = []
    for j in range(len(x)):
        L = -np.inf if lo is None else lo[j]
        U = np.inf if hi is None else hi[j]
        v = x[j]
        if not (v == v):
            out.append(5)  # NaN coordinate
        elif v < L:
            out.append(0)
        elif v > U:
            out.append(4)
        elif v == L:
            out.append(1)
        elif v == U:
            out.append(3)
        else:
            out.append(2)
    return out


def rclass(r):
    r = np.asarray(r, dtype=float)
    if np.any(np.isnan(r)):
        return "nan"
    if np.any(r == np.inf):
        return "pinf"
    if np.any(r == -np.inf):
        return "ninf"
    if np.max(np.abs(r)) >= 1e150:
        return "huge"
    return "fin"


def xcls(v):
    """point-identity class for TLC: "t" exact to rounding, "r" equal up to a re-projection (projection runs only), "f" different"""
    return "r" if v == "r" else ("t" if v else "f")


def mean_matches(stored, samples):
    """stored residual == arithmetic mean of the samples, to rounding of the running average: 1e-12 relative to the size of the
    samples (the mean itself can cancel to zero); exact for a single sample"""
    with np.errstate(all="ignore"):
        S = np.array(samples, dtype=float)
        stored = np.asarray(stored, dtype=float)
        if len(S) == 1:
            return bool(np.array_equal(stored, S[0], equal_nan=True))
        mean = np.mean(S, axis=0)
        fin = S[np.isfinite(S)]
        scale = float(np.max(np.abs(fin))) if fin.size else 0.0
        return bool(np.allclose(stored, mean, rtol=1e-12, atol=1e-12 * scale + 1e-300, equal_nan=True))


class Run(object):
    """State of one recorded solve."""

    def __init__(self, inst, prob):
        self.inst, self.P = inst, prob
        self.ev = []
        self.quiet = 0
        self.calls = []          # dict(i, x, r, f, raised)
        self.pt_of_call = {}     # evaluation number -> point number, from the code's own log
        self.points = {}         # point number -> dict(x=array, rs=[arrays], fs=[floats])
        self.xids = {}
        self.fault = inst.get("fault") or None
        self.lastlog = None
        self.dyk_tol = float((inst.get("user_params") or {}).get("dykstra.d_tol", 1e-10))
        self.nsets = len(prob["sets"]) + (1 if prob["sets"] else 0)
        self.noise_rng = np.random.default_rng([int(inst.get("seed", 0)) & 0x7FFFFFFF, 99])
        self.scaling = None      # (shift, scale) in use, filled from the first Controller
        self.kernel_dyk = 0
        self.growsafety = False  # a safety step happened during the growing phase (a random new direction was added)
        self.initrepair = None   # convex-constrained initialisation: "coordinate" / "negative_step" / "random_needed" (first run of the solve)

    def emit(self, _evname, **kw):
        if self.quiet == 0:
            kw["ev"] = _evname
            self.ev.append(kw)

    def xid(self, x):
        k = np.asarray(x, dtype=float).tobytes()
        if k not in self.xids:
            self.xids[k] = len(self.xids) + 1
        return self.xids[k]

    # ---- the user's functions -------------------------------------------------------------------
    def objfun(self, x, *args):
        P = self.P
        i = len(self.calls) + 1
        x = np.array(x, dtype=float, copy=True)
        raised = False
        r = np.asarray(P["resid"](x), dtype=float)
        if P["noise"] > 0:
            r = r + P["noise"] * self.noise_rng.normal(size=r.shape)
        fk = self.fault
        if fk is not None and (fk["k"] == i or fk["k"] == -1):
            kind = fk["kind"]
            if kind == "nan":
                r = r * np.nan
            elif kind == "nan1":
                r = r.copy(); r[0] = np.nan
            elif kind == "pinf":
                r = r.copy(); r[0] = np.inf
            elif kind == "ninf":
                r = r.copy(); r[0] = -np.inf
            elif kind == "huge":
                r = r.copy(); r[0] = 1e200
            elif kind in problems.RAISE_KINDS:
                raised = True
        with np.errstate(all="ignore"):
            f = float(np.dot(r, r)) + P["hval"](x)
        feas = "na"
        if P["sets"]:
            tol = math.sqrt(self.nsets * self.dyk_tol)
            dmax = max(s["dist"](x) for s in P["sets"])
            feas = "ok" if dmax <= tol else "viol"
        self.calls.append(dict(i=i, x=x, r=None if raised else r.copy(), f=f, raised=raised))
        if args:
            self.argsf_seen = args
        self.emit("Call", i=i, xh=hashlib.sha1(x.tobytes()).hexdigest()[:12], xid=self.xid(x), pos=pos_classes(x, P["lo"], P["hi"]), f=f, cls=("raise" if raised else rclass(r)),
                  raised=raised, feas=feas, xfin=bool(np.all(np.isfinite(x))))
        if raised:
            raise problems.RAISE_KINDS[fk["kind"]]("injected at evaluation %d" % i)
        if self.inst.get("rdtype"):
            # a residual function that hands back a legal 1-D array of another dtype (single precision / integer residuals); the harness's own record
            # keeps the values as computed in that dtype
            r = r.astype({"float32": np.float32, "int": np.int64}[self.inst["rdtype"]])
            self.calls[-1]["r"] = np.asarray(r, dtype=float)
        return r

    def on_log(self, i, j):
        self.pt_of_call[i] = j
        c = self.calls[i - 1] if 1 <= i <= len(self.calls) else None
        if c is not None and c["r"] is not None:
            p = self.points.setdefault(j, dict(x=c["x"], rs=[], fs=[]))
            p["rs"].append(c["r"])
            p["fs"].append(c["f"])
        self.emit("LogEval", i=int(i), j=int(j))

    # ---- helpers for the identity classes --------------------------------------------------------
    def to_user(self, xs):
        """scaled/internal absolute coordinates -> user's coordinates, with the same final clip the solver applies"""
        x = np.array(xs, dtype=float)
        if self.scaling is not None:
            x = self.scaling[0] + x * self.scaling[1]
        P = self.P
        if P["lo"] is not None or P["hi"] is not None:
            lo = P["lo"] if P["lo"] is not None else -1e20 * np.ones(len(x))
            hi = P["hi"] if P["hi"] is not None else 1e20 * np.ones(len(x))
            x = np.minimum(np.maximum(x, lo), hi)
        return x

    def to_user_noclip(self, xs):
        x = np.array(xs, dtype=float)
        if self.scaling is not None:
            x = self.scaling[0] + x * self.scaling[1]
        return x

    def ident(self, xs_abs, rvec, obj, ns, en, xbase=None, reproj=None):
        """(xok, rok, ook) for a stored point: see module docstring."""
        p = self.points.get(int(en))
        xu = self.to_user(xs_abs)
        if p is None:
            return False, False, self._ook(xu, rvec, obj)
        scale = max(1.0, float(np.max(np.abs(xu))) if len(xu) else 1.0, float(np.max(np.abs(p["x"]))))
        if xbase is not None and len(xbase):
            xb = self.to_user(xbase)
            scale = max(scale, float(np.max(np.abs(xb))))
        with np.errstate(all="ignore"):
            dev = float(np.max(np.abs(xu - p["x"]))) if len(xu) else 0.0
            xok = bool(dev <= 256 * EPS * scale)
            if not xok and self.P["sets"] and dev <= 10.0 * math.sqrt(self.nsets * self.dyk_tol) * scale:
                # with projections the code's read accessor RE-projects the stored point: when the routine's output is not a fixed point of the routine the
                # two differ at the level of the Dykstra tolerance.  Recorded as its own class ("r") so that it is reported under its own clause.
                xok = "r"
            if not xok and self.P["sets"] and reproj is not None and self.scaling is None:
                # ... and when the projection that produced the evaluated point had NOT converged (sweep cap), re-applying it moves the point by more than
                # any tolerance: still the same class if the stored point is exactly what one more application of the accessor's projection gives
                try:
                    xr = np.asarray(reproj(np.array(p["x"], dtype=float)), dtype=float)
                    if float(np.max(np.abs(xu - xr))) <= 1e-9 * scale:
                        xok = "r"
                except Exception:  # noqa
                    pass
            k = int(ns)
            if k < 1 or k > len(p["rs"]):
                rok = False
            else:
                rok = mean_matches(rvec, p["rs"][:k])
        return xok, rok, self._ook(xu, rvec, obj)

    def _ook(self, xu, rvec, obj):
        with np.errstate(all="ignore"):
            rvec = np.asarray(rvec, dtype=float)
            want = float(np.dot(rvec, rvec)) + self.P["hval"](xu)
            obj = float(obj)
            if math.isnan(want) or math.isnan(obj):
                return math.isnan(want) and math.isnan(obj)
            if math.isinf(want) or math.isinf(obj):
                return want == obj
            return abs(want - obj) <= 1e-12 * max(abs(want), abs(obj)) + 1e-300


def _fl(v):
    return float(v)


def install(run):
    """Bind the recording subclasses / wrappers.  Returns an `undo` callable."""
    dfols = vlib.import_dfols()
    import dfols.solver as S
    import dfols.controller as C
    import dfols.model as M
    import dfols.trust_region as T
    import dfols.util as U

    saved = dict(S_Controller=S.Controller, S_solve_main=S.solve_main, C_Model=C.Model,
                 dyk=dict(S=S.dykstra, C=C.dykstra, M=M.dykstra, T=T.dykstra))

    class RecModel(saved["C_Model"]):
        def __init__(self, *a, **k):
            saved["C_Model"].__init__(self, *a, **k)
            run.scaling = self.scaling_changes
            self._rec("ModelInit")

        def _slot_abs(self, k):
            # the code's own read accessor: the stored step may be unclipped / unprojected, the accessor clips / projects
            # (called under the re-entrancy flag, so the projection calls it makes emit no events)
            if self.projections:
                return saved["C_Model"].xpt(self, k, abs_coordinates=True)
            return self.xbase + np.minimum(np.maximum(self.sl, self.points[k, :]), self.su)

        def factorise_geom_system(self):
            was = self.factorisation_current
            done = False
            try:
                r = saved["C_Model"].factorise_geom_system(self)
                done = True
                return r
            finally:
                if not was and run.quiet == 0:
                    self._rec("Factorise", exc=not done)      # exc: the factorisation itself raised (non-finite system): nothing was stored

        def _proj(self):
            npt = self.npt()
            xok, rok, ook = [], [], []
            for k in range(npt):
                a, b, c = run.ident(self._slot_abs(k), self.fval_v[k, :], self.objval[k], self.nsamples[k], self.eval_num[k], self.xbase,
                                    reproj=(lambda xe: saved["dyk"]["M"](self.projections, xe)) if self.projections else None)
                xok.append(a); rok.append(b); ook.append(c)
            je = self.model_jac_eval_nums
            xok = [xcls(v) for v in xok]
            d = dict(npt=int(npt), numpts=int(self.num_pts), kopt=int(self.kopt), en=[int(v) for v in self.eval_num[:npt]],
                     ns=[int(v) for v in self.nsamples[:npt]], obj=[_fl(v) for v in self.objval[:npt]], xok=xok, rok=rok, ook=ook,
                     hassave=self.objsave is not None, fc=bool(self.factorisation_current),
                     jacen=[] if je is None else [int(v) for v in je])
            if self.objsave is not None:
                a, b, c = run.ident(self.xsave, self.rsave, self.objsave, self.nsamples_save, self.eval_num_save)
                d.update(objsave=_fl(self.objsave), ensave=int(self.eval_num_save), nssave=int(self.nsamples_save), xoksave=xcls(a), roksave=b, ooksave=c,
                         jacsaveen=[] if self.jacsave_eval_nums is None else [int(v) for v in self.jacsave_eval_nums])
            else:
                d.update(objsave=0.0, ensave=-1, nssave=-1, xoksave="t", roksave=True, ooksave=True, jacsaveen=[])
            return d

        def _rec(self, name, **kw):
            if run.quiet:
                return
            run.quiet += 1
            try:
                try:
                    pr = self._proj()
                except Exception as e:  # noqa
                    raise WrapperError("projection failed in %s: %r" % (name, e))
            finally:
                run.quiet -= 1
            run.emit(name, m=pr, **kw)

        def change_point(self, k, x, rvec, eval_num, allow_kopt_update=True):
            try:
                return saved["C_Model"].change_point(self, k, x, rvec, eval_num, allow_kopt_update)
            finally:
                self._rec("ChangePoint", k=int(k), enarg=int(eval_num))

        def add_new_sample(self, k, rvec_extra):
            try:
                return saved["C_Model"].add_new_sample(self, k, rvec_extra)
            finally:
                self._rec("AddSample", k=int(k))

        def add_new_point(self, x, rvec, eval_num):
            try:
                return saved["C_Model"].add_new_point(self, x, rvec, eval_num)
            finally:
                self._rec("AddPoint", enarg=int(eval_num))

        def swap_points(self, k1, k2):
            try:
                return saved["C_Model"].swap_points(self, k1, k2)
            finally:
                self._rec("Swap", k1=int(k1), k2=int(k2))

        def shift_base(self, xbase_shift):
            try:
                return saved["C_Model"].shift_base(self, xbase_shift)
            finally:
                self._rec("ShiftBase")

        def save_point(self, x, rvec, nsamples, eval_num, x_in_abs_coords=True):
            r = None
            with np.errstate(all="ignore"):
                xa = np.array(x, dtype=float) if x_in_abs_coords else None
                # h is evaluated where the code evaluates it: at the un-scaled point WITHOUT the final clip (ranks are compared exactly)
                obj = float(np.dot(rvec, rvec)) + (run.P["hval"](run.to_user_noclip(xa)) if xa is not None else 0.0)
            try:
                r = saved["C_Model"].save_point(self, x, rvec, nsamples, eval_num, x_in_abs_coords)
                return r
            finally:
                self._rec("SavePoint", nsarg=int(nsamples), enarg=int(eval_num), objarg=obj, saved=bool(r))

        def interpolate_mini_models_svd(self, *a, **k):
            r = None
            try:
                r = saved["C_Model"].interpolate_mini_models_svd(self, *a, **k)
                return r
            finally:
                self._rec("Interp", ok=bool(r[0]) if r is not None else False, exc=r is None)      # exc: the call raised instead of returning a flag

        def get_final_results(self):
            r = saved["C_Model"].get_final_results(self)
            if run.quiet == 0:
                self._rec("Final", objr=_fl(r[2]), nsr=int(r[4]), enr=int(r[5]), jacenr=[] if r[6] is None else [int(v) for v in r[6]])
            return r

    class RecController(saved["S_Controller"]):
        def __setattr__(self, name, val):
            object.__setattr__(self, name, val)
            if name in ("delta", "rho"):
                run.emit("Set", var=name, val=_fl(val))

        def soft_restart(self, number_of_samples, nruns_so_far, params, *a, **kw):
            run.emit("SoftBegin", nf=int(self.nf), nruns=int(nruns_so_far), objopt=_fl(self.model.objopt()), lsr=int(self.last_successful_run),
                     lastfopt=_fl(self.last_run_fopt), maxunsucc=int(params("restarts.max_unsuccessful_restarts")))
            r = "exc"
            try:
                r = saved["S_Controller"].soft_restart(self, number_of_samples, nruns_so_far, params, *a, **kw)
                return r
            finally:
                if r != "exc":
                    run.emit("SoftEnd", ok=r is None, flag=-99 if r is None else int(r.flag), msgc="" if r is None else msg_class(r.msg),
                             lsr=int(self.last_successful_run), rho=_fl(self.rho), delta=_fl(self.delta), rhoendc=_fl(self.rhoend))

        def initialise_coordinate_directions(self, number_of_samples, num_directions, params):
            if self.model.projections and run.quiet == 0 and run.initrepair is None:
                # which repair phase of the convex-constrained initialisation these inputs need (independent re-computation, harness/convexinit.py)
                from . import convexinit
                run.quiet += 1
                try:
                    with np.errstate(all="ignore"):
                        run.initrepair = convexinit.classify(list(self.model.projections), np.array(self.model.xbase, dtype=float), min(1.0, float(self.delta)),
                                                             int(params("dykstra.max_iters")), float(params("dykstra.d_tol")), float(params("matrix_rank.r_tol")))
                except Exception:  # noqa  (classification is advisory: it only narrows a known finding)
                    run.initrepair = "unknown"
                finally:
                    run.quiet -= 1
            return saved["S_Controller"].initialise_coordinate_directions(self, number_of_samples, num_directions, params)

        def add_new_direction_while_growing(self, number_of_samples, params, min_num_steps=0):
            if min_num_steps >= 1:
                run.growsafety = True        # a safety step while the set is still growing: the new direction is drawn from numpy's global generator
            return saved["S_Controller"].add_new_direction_while_growing(self, number_of_samples, params, min_num_steps=min_num_steps)

        def reduce_rho(self, *a, **k):
            pre = (_fl(self.rho), _fl(self.delta))
            r = saved["S_Controller"].reduce_rho(self, *a, **k)
            run.emit("ReduceRho", rho0=pre[0], delta0=pre[1], rho=_fl(self.rho), delta=_fl(self.delta), rhoendc=_fl(self.rhoend))
            return r

        def evaluate_objective(self, x, number_of_samples, params):
            run.emit("EvalBegin", req=int(number_of_samples), nf=int(self.nf), nx=int(self.nx))
            r = None
            try:
                r = saved["S_Controller"].evaluate_objective(self, x, number_of_samples, params)
                return r
            finally:
                if r is not None:
                    run.emit("EvalEnd", run=int(r[2]), nf=int(self.nf), nx=int(self.nx), hasexit=r[3] is not None,
                             flag=-99 if r[3] is None else int(r[3].flag), msgc="" if r[3] is None else msg_class(r[3].msg))
                else:
                    run.emit("EvalAbort", nf=int(self.nf), nx=int(self.nx))

        def trust_region_step(self, params, *a):
            out = saved["S_Controller"].trust_region_step(self, params, *a)
            if run.quiet == 0:
                with np.errstate(all="ignore"):
                    d, gopt, H = np.asarray(out[0], dtype=float), np.asarray(out[1], dtype=float), np.asarray(out[2], dtype=float)
                    cl = [["norm_le_delta", "C13", bool(np.linalg.norm(d) <= self.delta * (1 + 1e-8))]]
                    if self.h is not None and np.all(np.isfinite(gopt)) and np.all(np.isfinite(H)):
                        # predicted reduction of the step handed to the main loop, with the code's own formula (controller.py:551)
                        run.quiet += 1
                        try:
                            xo = self.model.xopt(abs_coordinates=True)
                        finally:
                            run.quiet -= 1
                        hx = run.P["hval"](run.to_user_noclip(xo))
                        mv = float(np.dot(d, gopt + 0.5 * H.dot(d))) + run.P["hval"](run.to_user_noclip(xo + d))
                        cl.append(["pred_reduction_nonneg", "C13", bool(hx - mv >= 0.0)])
                run.emit("Kernel", name="tr_step", cl=cl, insolver=True)
            return out

        def calculate_ratio(self, x, current_iter, rvec_list, d, gopt, H):
            with np.errstate(all="ignore"):
                objopt = _fl(self.model.objopt())
                mean = np.mean(rvec_list, axis=0)
                obj = float(np.dot(mean, mean))
                if self.h is not None:
                    obj += run.P["hval"](run.to_user(np.asarray(x) + np.asarray(d)))
            r = saved["S_Controller"].calculate_ratio(self, x, current_iter, rvec_list, d, gopt, H)
            run.emit("Ratio", objopt=objopt, objnew=obj, ratio=_fl(r[0]), zero=0.0, hasexit=r[1] is not None,
                     flag=-99 if r[1] is None else int(r[1].flag), delta=_fl(self.delta), rho=_fl(self.rho))
            return r

    def rec_solve_main(objfun, x0, argsf, xl, xu, projections, npt, rhobeg, rhoend, maxfun, nruns_so_far, nf_so_far, nx_so_far, *a, **kw):
        run.emit("RunBegin", npt=int(npt), rhoend=_fl(rhoend), rhobeg=_fl(rhobeg), nruns=int(nruns_so_far), nf=int(nf_so_far), nx=int(nx_so_far),
                 inherit=kw.get("r0_avg_old") is not None, x0id=run.xid(run.to_user_unclipped(x0, a, kw)))
        out = saved["S_solve_main"](objfun, x0, argsf, xl, xu, projections, npt, rhobeg, rhoend, maxfun, nruns_so_far, nf_so_far, nx_so_far, *a, **kw)
        run.emit("RunEnd", nf=int(out[5]), nx=int(out[6]), nruns=int(out[7]), flag=int(out[8].flag), msgc=msg_class(out[8].msg), obj=_fl(out[2]),
                 en=int(out[10]), ns=int(out[4]), hasjac=out[3] is not None, jacen=[] if out[11] is None else [int(v) for v in out[11]])
        return out

    def to_user_unclipped(x0, a, kw):
        sc = a[3] if len(a) > 3 else kw.get("scaling_changes")
        x = np.array(x0, dtype=float)
        if sc is not None:
            x = sc[0] + x * sc[1]
        return x
    run.to_user_unclipped = to_user_unclipped

    def make_dyk(site, orig):
        def rec_dykstra(P, x0, max_iter=100, tol=1e-10):
            if run.quiet:
                return orig(P, x0, max_iter=max_iter, tol=tol)
            if site in ("kernel", "controller"):
                # step kernels call the routine thousands of times per solve; the first KERNEL_DYK_CAP calls of a run are
                # recorded in full, the rest only counted (the dedicated C15/C13 corpora observe every call)
                run.kernel_dyk += 1
                if run.kernel_dyk > KERNEL_DYK_CAP:
                    return orig(P, x0, max_iter=max_iter, tol=tol)
            p = len(P)
            log = []

            def wrap(i, f):
                def g(w):
                    out = f(w)
                    log.append((i, np.array(w, dtype=float, copy=True), np.array(out, dtype=float, copy=True)))
                    return out
                return g
            res = orig([wrap(i, f) for i, f in enumerate(P)], x0, max_iter=max_iter, tol=tol)
            # shadow: recompute corrections and the stopping quantity with the routine's own formulas from the observed projector outputs
            x = np.array(x0, dtype=float, copy=True)
            y = np.zeros((p, len(x)))
            order_ok, in_ok = True, True
            sweeps, below = 0, []
            idx = 0
            while idx + p <= len(log):
                cI = 0
                for i in range(p):
                    li, win, wout = log[idx + i]
                    order_ok = order_ok and (li == i)
                    prev_x = x.copy()
                    in_ok = in_ok and bool(np.array_equal(win, prev_x - y[i, :]))
                    x = wout
                    prev_y = y[i, :].copy()
                    y[i, :] = x - (prev_x - prev_y)
                    cI += np.linalg.norm(prev_y - y[i, :]) ** 2
                idx += p
                sweeps += 1
                below.append(bool(cI < tol))
            whole = (idx == len(log))
            out_is_last = bool(np.array_equal(res, x)) if sweeps > 0 else bool(np.array_equal(res, x0))
            feas = "na"
            boxpos = []
            if site in ("solver", "model") and run.P["sets"]:
                with np.errstate(all="ignore"):
                    dmax = max(s["dist"](np.asarray(res, dtype=float)) for s in run.P["sets"])
                feas = "ok" if dmax <= math.sqrt(run.nsets * tol) else "viol"
                boxpos = pos_classes(np.asarray(res, dtype=float), run.P["lo"], run.P["hi"])
            run.emit("Dyk", site=site, p=int(p), calls=len(log), sweeps=int(sweeps), maxiter=int(max_iter), below=below, whole=whole,
                     order_ok=order_ok, in_ok=in_ok, out_is_last=out_is_last, outxid=run.xid(res), inxid=run.xid(x0), feas=feas, boxpos=boxpos,
                     tolok=bool(tol == run.dyk_tol))
            return res
        return rec_dykstra

    # step kernels as the controller calls them: contract classes on the solver's own (realistic) inputs (C12, C13)
    from . import kernels as K
    saved["kern"] = dict(trsbox=C.trsbox, trsbox_geometry=C.trsbox_geometry, ctrsbox_pgd=C.ctrsbox_pgd, ctrsbox_sfista=C.ctrsbox_sfista,
                         ctrsbox_geometry=C.ctrsbox_geometry)

    def k_trsbox(xopt, g, H, sl, su, delta, *a, **kw):
        out = saved["kern"]["trsbox"](xopt, g, H, sl, su, delta, *a, **kw)
        if run.quiet == 0 and np.all(np.isfinite(g)) and np.all(np.isfinite(H)) and np.all(np.isfinite(xopt)):
            with np.errstate(all="ignore"):
                e = K.trsbox_classes("trsbox", np.asarray(xopt, dtype=float), np.asarray(g, dtype=float), np.asarray(H, dtype=float),
                                     np.asarray(sl, dtype=float), np.asarray(su, dtype=float), float(delta), out[0], out[1])
            extra = {}
            # the property quantifies over "scalings of g over 6 decades, delta over 8 decades": a call of the solver's own is judged when its data are
            # inside a (much wider) scale domain - 1e-8 <= |g|_inf, delta <= 1e8 and curvature over the trust region at most 1e8 times the gradient.
            # Outside it (a model fitted through points 1e-17 apart has |g| ~ 1e17, |H| ~ 1e34) the kernel's absolute thresholds (step length
            # 1e-30, gradient 1e-18, from DFBOLS) decide, and the statement does not cover them: the event is logged without clauses
            gi, hm = float(np.max(np.abs(g))), float(np.max(np.abs(H)))
            if not (1e-8 <= gi <= 1e8 and 1e-8 <= float(delta) <= 1e8 and hm * float(delta) <= 1e8 * gi):
                e["cl"] = []
                extra["dom"] = "out"
            if not all(c[2] for c in e["cl"]):
                # a failed clause: keep the call's data (hex floats) so that the kernel can be re-run on its own
                hx = lambda a: [float(v).hex() for v in np.asarray(a, dtype=float).ravel()]      # noqa: E731
                extra["inp"] = dict(xopt=hx(xopt), g=hx(g), H=hx(H), sl=hx(sl), su=hx(su), delta=float(delta).hex(), d=hx(out[0]))
            run.emit("Kernel", name="trsbox", cl=e["cl"], insolver=True, **extra)
        return out

    def k_geom(xbase, c, g, lower, upper, Delta, *a, **kw):
        out = saved["kern"]["trsbox_geometry"](xbase, c, g, lower, upper, Delta, *a, **kw)
        if run.quiet == 0 and np.all(np.isfinite(g)) and np.isfinite(c) and np.all(np.isfinite(xbase)):
            with np.errstate(all="ignore"):
                x = np.asarray(out, dtype=float)
                sdir = x - xbase
                t = 1e-12 * max(1.0, float(np.max(np.abs(x))), float(Delta))
                val = abs(c + float(np.dot(g, sdir)))
                gg = np.asarray(g, dtype=float)
                cl = [["box_1e-12", "C13", bool(np.all(x >= lower - t) and np.all(x <= upper + t))],
                      ["norm_le_delta", "C13", bool(np.linalg.norm(sdir) <= Delta * (1 + 1e-8))],
                      ["not_worse_than_zero", "C13", bool(val >= abs(c) * (1 - 1e-12))]]
                if not np.any((np.abs(gg) > 0) & (np.abs(gg) < 1e-10)):
                    best = K.geom_oracle(float(c), gg, np.minimum(lower - xbase, -1e-14), np.maximum(upper - xbase, 1e-14), float(Delta))
                    cl.append(["global_max_1e-6", "C13", bool(val >= (1 - 1e-6) * best - 1e-300)])
            run.emit("Kernel", name="trsbox_geometry", cl=cl, insolver=True)
        return out

    def k_norm(name, dpos):
        orig = saved["kern"][name]

        def w(*a, **kw):
            out = orig(*a, **kw)
            if run.quiet == 0:
                d = np.asarray(out[0] if isinstance(out, tuple) else out, dtype=float)
                Delta = float(a[dpos])
                run.emit("Kernel", name=name, cl=[["norm_le_delta", "C13", bool(np.linalg.norm(d) <= Delta * (1 + 1e-8))]], insolver=True)
            return out
        return w
    C.trsbox = k_trsbox
    C.trsbox_geometry = k_geom
    C.ctrsbox_pgd = k_norm("ctrsbox_pgd", 4)
    C.ctrsbox_sfista = k_norm("ctrsbox_sfista", 4)
    C.ctrsbox_geometry = k_norm("ctrsbox_geometry", 4)

    S.Controller = RecController
    S.solve_main = rec_solve_main
    C.Model = RecModel
    S.dykstra = make_dyk("solver", saved["dyk"]["S"])
    C.dykstra = make_dyk("controller", saved["dyk"]["C"])
    M.dykstra = make_dyk("model", saved["dyk"]["M"])
    T.dykstra = make_dyk("kernel", saved["dyk"]["T"])

    class LogH(logging.Handler):
        def emit(self, rec):
            try:
                msg = rec.msg if isinstance(rec.msg, str) else ""
                if msg.startswith("Function eval"):
                    p = rec.getMessage().split()
                    run.on_log(int(p[2]), int(p[5]))
            except Exception as e:  # noqa
                raise WrapperError("log handler: %r" % (e,))

    lg = logging.getLogger("dfols")
    hnd = LogH()
    old_level, old_prop = lg.level, lg.propagate
    lg.setLevel(logging.INFO)
    lg.addHandler(hnd)
    lg.propagate = False

    def undo():
        S.Controller = saved["S_Controller"]
        S.solve_main = saved["S_solve_main"]
        C.Model = saved["C_Model"]
        S.dykstra, C.dykstra, M.dykstra, T.dykstra = saved["dyk"]["S"], saved["dyk"]["C"], saved["dyk"]["M"], saved["dyk"]["T"]
        for kname, kf in saved["kern"].items():
            setattr(C, kname, kf)
        lg.removeHandler(hnd)
        lg.setLevel(old_level)
        lg.propagate = old_prop
    return undo


def _alarm(signum, frame):
    raise HangError()


def record(inst, timeout=60.0, extra_return=None, rng_state=None):
    """Run dfols.solve on the instance under the recorder.  Returns dict(inst, ev, soln-or-None, run)."""
    dfols = vlib.import_dfols()
    P = problems.build(inst)
    run = Run(inst, P)
    undo = install(run)
    kw = dict(P["kwargs"])
    if "nsamples" in kw:
        user_ns = kw["nsamples"]

        def ns(delta, rho, it, nruns):
            r = user_ns(delta, rho, it, nruns)
            run.emit("NSamples", ret=int(r), it=int(it), nruns=int(nruns), delta=_fl(delta), rho=_fl(rho))
            return r
        kw["nsamples"] = ns
    x0 = P["x0"].copy()
    x0_copy = x0.copy()
    bnd_copy = None
    if "bounds" in kw:
        bnd_copy = tuple(None if b is None else b.copy() for b in kw["bounds"])
    up_copy = json.dumps(kw.get("user_params"), sort_keys=True, default=str)
    soln = None
    outcome = "return"
    exc = None
    old = signal.signal(signal.SIGALRM, _alarm)
    signal.setitimer(signal.ITIMER_REAL, timeout)
    # the library draws from numpy's global generator (random directions); every recorded run starts from a state of its own, so that a run is
    # the same in a worker process that has recorded other runs before and in a replay (C19 sets the state it wants to compare explicitly)
    np.random.seed(rng_state if rng_state is not None else (int(inst.get("seed", 0)) & 0x7FFFFFFF))
    try:
        with warnings.catch_warnings():
            warnings.simplefilter("ignore")
            with np.errstate(all="ignore"):
                if kw.get("print_progress"):
                    import contextlib
                    import io
                    with contextlib.redirect_stdout(io.StringIO()):
                        soln = dfols.solve(run.objfun, x0, **kw)
                else:
                    soln = dfols.solve(run.objfun, x0, **kw)
    except HangError:
        outcome = "hang"
    except WrapperError:
        raise
    except Exception as e:  # the solver's own exceptions are events, not machinery failures
        outcome = "raise"
        exc = e
        # ... unless the exception was raised by the harness's own code (a wrapper): that is a machinery failure, never a verdict
        if not isinstance(e, problems.InjectedError):
            tb = e.__traceback__
            last = None
            while tb is not None:
                last = tb.tb_frame.f_code.co_filename
                tb = tb.tb_next
            if last is not None and os.path.realpath(last).startswith(os.path.realpath(vlib.VERIF)):
                import traceback
                raise WrapperError("exception raised inside the harness: " + "".join(traceback.format_exception(type(e), e, e.__traceback__))[-1500:])
    finally:
        signal.setitimer(signal.ITIMER_REAL, 0)
        signal.signal(signal.SIGALRM, old)
        undo()
    inputs_ok = bool(np.array_equal(x0, x0_copy, equal_nan=True))
    if bnd_copy is not None:
        for b0, b1 in zip(bnd_copy, kw["bounds"]):
            inputs_ok = inputs_ok and ((b0 is None and b1 is None) or bool(np.array_equal(b0, b1)))
    inputs_ok = inputs_ok and (up_copy == json.dumps(kw.get("user_params"), sort_keys=True, default=str))
    if outcome == "hang":
        run.emit("Hang", ncalls=len(run.calls))
    elif outcome == "raise":
        run.emit("Raise", type=type(exc).__name__, injected=isinstance(exc, problems.InjectedError),
                 same=bool(exc.args and "injected at evaluation %d" % len(run.calls) == exc.args[0]), text=str(exc)[:200])
    else:
        emit_return(run, soln, kw, inputs_ok, extra_return)
    return dict(inst=inst, ev=run.ev, soln=soln, run=run, outcome=outcome)


def doc_rhoend(inst, nmax):
    """rhoend as rescaled by the documented per-restart factor, computed from the arguments with the solver's operation order"""
    r = float(inst.get("rhoend", 1e-6))
    s = float(inst.get("rhoend_scale", 1.0))  # the parameter is passed whenever the instance names it (restarts may also be on via objfun_has_noise)
    out = [r]
    for _ in range(nmax):
        r = s * r
        out.append(r)
    return out


def emit_return(run, s, kw, inputs_ok, extra_return):
    P, inst = run.P, run.inst
    inputerr = (s.flag == -1)
    d = dict(flag=int(s.flag), msgc=msg_class(s.msg), msgnonempty=bool(isinstance(s.msg, str) and len(s.msg) > 0), nf=int(s.nf), nx=int(s.nx), wantsucc=not inst.get("restarts"),
             nruns=int(s.nruns), inputerr=inputerr, inputs_ok=inputs_ok, ncalls=len(run.calls))
    try:
        txt = str(s)
        d["str_ok"] = isinstance(txt, str) and len(txt) > 0
    except Exception:  # noqa
        d["str_ok"] = False
    if not inputerr:
        x = np.asarray(s.x, dtype=float)
        en = int(s.xmin_eval_num)
        d.update(en=en, hasjac=s.jacobian is not None, jacen=[] if s.jacmin_eval_nums is None else [int(v) for v in s.jacmin_eval_nums],
                 obj=_fl(s.obj), xpos=pos_classes(x, P["lo"], P["hi"]), xfin=bool(np.all(np.isfinite(x))), objfin=bool(np.isfinite(s.obj)))
        p = run.points.get(en)
        with np.errstate(all="ignore"):
            if p is None:
                d.update(xok="f", rok=False, objok=False)
            else:
                scale = max(1.0, float(np.max(np.abs(x))), float(np.max(np.abs(p["x"]))), float(np.max(np.abs(P["x0"]))))
                dev = float(np.max(np.abs(x - p["x"])))
                d["xok"] = bool(dev <= 256 * EPS * scale)
                if not d["xok"] and P["sets"] and dev <= 10.0 * math.sqrt(run.nsets * run.dyk_tol) * scale:
                    d["xok"] = "r"
                d["xok"] = xcls(d["xok"])
                d["rok"] = mean_matches(s.resid, p["rs"])
                d["objok"] = run._ook(x, s.resid, s.obj)
            # f(x0): objective at the first evaluation point (mean over its samples) -> the 'sufficiently small' threshold (C10)
            p1 = run.points.get(1)
            up = inst.get("user_params") or {}
            abs_tol = float(inst.get("abs_tol", up.get("model.abs_tol", 1e-12)))
            rel_tol = float(inst.get("rel_tol", up.get("model.rel_tol", 1e-20)))
            if p1 is not None:
                m1 = np.mean(np.array(p1["rs"]), axis=0)
                f0 = float(np.dot(m1, m1)) + P["hval"](p1["x"])
                thr = max(abs_tol, rel_tol * f0) if f0 == f0 else abs_tol
                d["f0"] = f0
            else:
                thr = abs_tol
                d["f0"] = 0.0
            d["thr"] = thr
            # best objective over all points evaluated (harness recomputation from recorded residuals): single-sample means
            fin = [pp["fs"][0] for pp in run.points.values() if len(pp["fs"]) and pp["fs"][0] == pp["fs"][0]]
            d["minf"] = min(fin) if fin else 0.0
            d["hasfin"] = bool(fin)
        d["rhoenddoc"] = doc_rhoend(inst, int(s.nruns) + 1)
        # diagnostic table
        if s.diagnostic_info is not None:
            df = s.diagnostic_info
            cols = sorted(str(c) for c in df.columns)
            tab = dict(cols=cols, n=int(len(df)))
            for c in ("rho", "delta", "fk"):
                tab[c] = [_fl(v) for v in df[c].tolist()] if c in df else []
            for c in ("nf", "nx", "nruns", "npt", "iter_this_run", "iters_total"):
                tab[c] = [int(v) for v in df[c].tolist()] if c in df else []
            tab["slow_iter"] = [(-1 if (v is None or v != v) else int(v)) for v in df["slow_iter"].tolist()] if "slow_iter" in df else []
            tab.update(rnf=int(s.nf), rnx=int(s.nx), rnruns=int(s.nruns))      # the result's own counters: the table's are bounded by THEM
            run.emit("Diag", **tab)
    if extra_return:
        d.update(extra_return(run, s, kw))
    run.emit("Return", **d)


# ------------------------------------------------------------------------------------------ encoding

FLOAT_NAN = NAN


def encode_events(ev):
    """Order-preserving encoding of every float in the event list (DESIGN.md 2.2, encoding 1): distinct finite values ->
    dense ranks 0..top-1, -inf -> -1, +inf -> top, NaN -> NAN.  ints, bools and strings pass through."""
    vals = set()

    def walk(o):
        if isinstance(o, bool):
            return
        if isinstance(o, float):
            if not math.isnan(o) and not math.isinf(o):
                vals.add(o)
        elif isinstance(o, dict):
            for v in o.values():
                walk(v)
        elif isinstance(o, (list, tuple)):
            for v in o:
                walk(v)
    walk(ev)
    sv = sorted(vals)
    rank = {v: i for i, v in enumerate(sv)}
    top = len(sv)

    def enc(o):
        if isinstance(o, bool):
            return o
        if isinstance(o, float):
            if math.isnan(o):
                return NAN
            if math.isinf(o):
                return top if o > 0 else -1
            return rank[o]
        if isinstance(o, dict):
            return {k: enc(v) for k, v in o.items()}
        if isinstance(o, (list, tuple)):
            return [enc(v) for v in o]
        if isinstance(o, (np.integer,)):
            return int(o)
        if isinstance(o, (np.bool_,)):
            return bool(o)
        return o
    out = enc(ev)
    if isinstance(out, dict):
        out["top"] = top          # the code of +inf (one more than the largest finite rank)
    return out
