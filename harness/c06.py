"""C06 - see harness/c05.py"""
from . import c05


def run(tier):
    return c05.run_prop("C06", tier, 40, 900, c05.concretise_c06, 3)
