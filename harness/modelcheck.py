"""Drive TLC on the design-level specifications (Dfols.tla, ModelMC.tla, ...) with generated configuration files."""
import os

from . import vlib

DFOLS_DEFAULTS = dict(MaxFun=5, NPT=2, VMax=2, Small="NoSmall", MaxSamples=1, WithInf=False, UseRestarts=False, SoftRestarts=True,
                      MaxUnsucc=2, NumGeom=1, MoveXk=True, UseOldRk=True, IncNpt=0, RhoLevels=2, RhoendScaleDrop=0, MaxRuns=3, NdirsInit=0, RhoDropAny=False, NoisyObjective=False, WithHuge=False, NewDirs=0, GrowGeom=False, RegInc=0, WithNoise=False, RegSteps=0, WithAuto=True, WithFalseSuccess=True,
                      DefSoftSwap=False, DefTrialLost=False, DefX0EvalNum=False, DefHardEvalNum=False, DefDoubleNruns=False,
                      DefCtrlRhoend=False, DefSuccessNonFinite=False, DefAutoFlagLeak=False, DefNaNCompare=False, DefSwapNs=False, DefStaleFactor=False)
DFOLS_INVARIANTS = ["TypeOK", "C02_Budget", "C02_Counters", "C02_NfIsSum", "C02_Samples", "C03_EveryIter", "C03_Returned", "C04_BestKept",
                    "C04_EveryIter", "C08_FiniteRetained", "C10_SmallTruth", "C10_RhoendTruth", "C10_MaxfunTruth", "C10_UnsuccTruth",
                    "C10_Nruns", "C10_SuccessFinite", "C07_DocumentedFlag", "C11_JacNames", "C11_Snapshot", "C18_Radii"]
DFOLS_ACTION_PROPS = ["C02_Monotone", "C04_Monotone"]


def _val(v):
    if isinstance(v, bool):
        return "TRUE" if v else "FALSE"
    return str(v)


def write_cfg(path, consts, invariants=(), props=(), spec="Spec", constraint=None, subst=("Small",), view=None):
    lines = ["SPECIFICATION %s" % spec, "CONSTANTS"]
    for k, v in consts.items():
        if k in subst and isinstance(v, str):
            lines.append("  %s <- %s" % (k, v))
        else:
            lines.append("  %s = %s" % (k, _val(v)))
    if constraint:
        lines.append("CONSTRAINT %s" % constraint)
    if view:
        lines.append("VIEW %s" % view)
    for i in invariants:
        lines.append("INVARIANT %s" % i)
    for p in props:
        lines.append("PROPERTY %s" % p)
    lines.append("CHECK_DEADLOCK FALSE")
    with open(path, "w") as f:
        f.write("\n".join(lines) + "\n")


def run_dfols(workdir, name, over, invariants=None, props=None, liveness=False, workers=None, timeout=1200, simulate=None, depth=None, seed_=None,
              coverage=False):
    consts = dict(DFOLS_DEFAULTS)
    consts.update(over)
    cfg = os.path.join(workdir, name + ".cfg")
    os.makedirs(workdir, exist_ok=True)
    if liveness:
        write_cfg(cfg, consts, invariants=[], props=["Termination"], spec="FairSpec", constraint=None)
    else:
        write_cfg(cfg, consts, invariants=DFOLS_INVARIANTS if invariants is None else invariants,
                  props=DFOLS_ACTION_PROPS if props is None else props, constraint="RunsBound")
    res = vlib.run_tlc("Dfols.tla", cfg, os.path.join(workdir, name), workers=workers, timeout=timeout, heap="6g", simulate=simulate, depth=depth,
                       seed_=seed_, coverage=coverage)
    res["name"] = name
    res["consts"] = {k: v for k, v in consts.items() if DFOLS_DEFAULTS.get(k) != v}
    return res
