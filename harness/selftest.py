"""Demonstration of the binding (DESIGN.md 4.3): recorded traces of the real code are corrupted in one place each - a logged field changed, a
kind of event dropped, a call duplicated - and every corruption must be REJECTED by the trace specification with the expected clause.  A
corruption that is accepted means the specification constrains nothing there: that is a machinery failure (exit 2), never a verdict."""
import copy
import os

import numpy as np

from . import vlib, strace, corpus


def corruptions(traces):
    out = []
    rng = np.random.default_rng(7)

    def pick(pred):
        for t in traces:
            idx = [i for i, e in enumerate(t["ev"]) if pred(e)]
            if idx:
                return t, idx
        return None, []
    # 1. an evaluation number changed in a logged model state
    t, idx = pick(lambda e: e["ev"] == "ChangePoint" and e["m"]["npt"] >= 2)
    if t:
        c = copy.deepcopy(t); i = idx[len(idx) // 2]
        c["ev"][i]["m"]["en"][0] += 1
        out.append(("en_incremented", "C03", {"pred_slots", "slot_evalnum_in_range", "slot_point_is_the_evaluated_point"}, c))
    # 2. all SavePoint events dropped
    t, idx = pick(lambda e: e["ev"] == "SavePoint" and e["saved"])
    if t:
        c = copy.deepcopy(t)
        c["ev"] = [e for e in c["ev"] if e["ev"] != "SavePoint"]
        out.append(("savepoint_events_dropped", "C17", {"pred_save", "final_obj", "final_en", "final_readonly"}, c))
    # 3. one objective call duplicated (the wrapper 'calls through twice')
    t, idx = pick(lambda e: e["ev"] == "Call")
    if t:
        c = copy.deepcopy(t); i = idx[min(3, len(idx) - 1)]
        c["ev"].insert(i + 1, copy.deepcopy(c["ev"][i]))
        out.append(("call_duplicated", "C02", {"call_index", "log_evalnum", "rt_nf_is_calls_made"}, c))
    # 4. the code's own point numbering skips one
    t, idx = pick(lambda e: e["ev"] == "LogEval" and e["j"] >= 3)
    if t:
        c = copy.deepcopy(t); i = idx[0]
        c["ev"][i]["j"] += 1
        out.append(("point_number_gap", "C02", {"log_ptnum"}, c))
    # 5. the returned evaluation number points elsewhere
    t, idx = pick(lambda e: e["ev"] == "Return" and not e.get("inputerr") and e.get("en", 0) >= 2)
    if t:
        c = copy.deepcopy(t); i = idx[0]
        c["ev"][i]["en"] -= 1
        out.append(("returned_evalnum_changed", "C03", {"rt_is_merged_best"}, c))
    # 6. budget: the configuration says one evaluation less was allowed
    t, idx = pick(lambda e: e["ev"] == "Return" and not e.get("inputerr") and e.get("nf", 0) >= 3)
    if t and t["cfg"]["maxfun"] == t["ev"][idx[0]]["nf"]:
        c = copy.deepcopy(t)
        c["cfg"]["maxfun"] -= 1
        out.append(("budget_lowered", "C02", {"budget", "rt_nf_is_calls_made"}, c))
    # 7. best-so-far: the returned objective rank raised above an evaluated value
    t, idx = pick(lambda e: e["ev"] == "Return" and not e.get("inputerr") and e.get("hasfin"))
    if t and t["cfg"]["det"] and not t["cfg"]["reg"]:
        c = copy.deepcopy(t); i = idx[0]
        c["ev"][i]["obj"] += 5
        out.append(("returned_objective_raised", "C04", {"rt_best_never_lost", "rt_is_merged_best"}, c))
    # 8. C19: one point digest of a copy differs from its reference
    t, idx = pick(lambda e: e["ev"] == "Call")
    if t:
        ref = copy.deepcopy(t); ref["id"] = 900001; ref["refid"] = None
        c = copy.deepcopy(t); c["id"] = 900002; c["refid"] = 900001
        for k, e in enumerate(ref["ev"]):
            e["dg"] = c["ev"][k]["dg"] = "d%d" % k        # the recorder attaches raw-event digests only for C19 corpora (rng_state given)
        c["ev"][idx[-1]]["dg"] = "000000000000"
        out.append(("digest_differs_from_reference", "C19", {"identical_to_reference_run"}, [ref, c]))
    return out


def run():
    rng = np.random.default_rng(1)
    insts = [corpus.general(rng, i + 1, allow=("bounds", "restarts", "npt")) for i in range(30)]
    for i in insts:
        i["maxfun"] = 40
        i.pop("fault", None)
    insts += [dict(id=100, seed=5, n=2, m=2, prob="ros3", rhoend=1e-2, maxfun=35), dict(id=101, seed=6, n=2, m=3, prob="nl", rhoend=1e-2, maxfun=12)]
    traces = strace.record_many(insts)
    wd = vlib.scratch()
    base = strace.validate("ALL", traces, os.path.join(wd, "base"))
    if any(v for v in base["per"].values()):
        raise vlib.MachineryError("selftest: uncorrupted traces are not accepted")
    results = []
    for k, (name, prop, expect, c) in enumerate(corruptions(traces)):
        cs = c if isinstance(c, list) else [c]
        res = strace.validate(prop, cs, os.path.join(wd, "c%d" % k))
        got = set(cl for t in cs for cl, _ in res["per"][t["id"]])
        ok = bool(got & expect)
        results.append(dict(corruption=name, property=prop, rejected=bool(got), clauses=sorted(got), expected_any_of=sorted(expect), ok=ok))
        if not ok:
            raise vlib.MachineryError("selftest: corruption %s was not rejected with one of %s (got %s)" % (name, sorted(expect), sorted(got)))
    return results


if __name__ == "__main__":
    import json
    print(json.dumps(run(), indent=1))
