"""code -> spec for the control machine: recorded runs of the real dfols.solve checked against Dfols.tla (spec/DfolsCtl.tla).

snapshots(t)   the recorded event stream reduced to snapshots of the observable state (purely syntactic: counters come from the solver's own log lines,
               the model projection from the recorder's Model events; an evaluation and the Model calls that consume it form one group, flushed before
               the next control event)
constants(...) the run's own constants for Dfols.tla, written literally into the TLC configuration
validate(...)  one TLC process per run (depth-first queue), accepted <=> the last snapshot is reached; the Appendix-B invariants are evaluated on
               the behaviour found
"""
import json
import os
import re

from . import vlib

STOP = {"EvalBegin", "Interp", "Factorise", "SoftBegin", "SoftEnd", "ReduceRho", "Final", "RunEnd", "RunBegin", "Return", "Raise", "Hang", "ShiftBase", "Swap"}
MODEL = {"ModelInit", "ChangePoint", "AddSample", "AddPoint", "SavePoint", "Interp"}
EMPTY_M = dict(npt=0, numpts=0, kopt=0, en=[], ns=[], obj=[], hassave=False, objsave=0, ensave=-1, nssave=-1, jacen=[])
MKEYS = ("npt", "numpts", "kopt", "en", "ns", "obj", "hassave", "objsave", "ensave", "nssave", "jacen")

INVARIANTS = {"C02_Budget": "C02", "C02_Counters": "C02", "C02_NfIsSum": "C02", "C02_Samples": "C02", "C03_EveryIter": "C03", "C03_Returned": "C03",
              "C04_BestKept": "C04", "C04_EveryIter": "C04", "C08_FiniteRetained": "C08", "C10_SmallTruth": "C10", "C10_RhoendTruth": "C10",
              "C10_MaxfunTruth": "C10", "C10_UnsuccTruth": "C10", "C10_Nruns": "C10", "C10_SuccessFinite": "C10", "C07_DocumentedFlag": "C07",
              "C11_JacNames": "C11", "C11_Snapshot": "C11", "C18_Radii": "C18"}


def modelled(inst, t):
    """is the run inside the option space Dfols.tla models?  (reason when not)"""
    up = inst.get("user_params") or {}
    if any(e["ev"] == "Swap" for e in t["ev"]):
        return "point swaps (initial sets with more than n+1 points) are not in Dfols.tla"
    if any(e["ev"] in ("Raise", "Hang") for e in t["ev"]):
        return "the run did not return"
    if t["cfg"].get("parallel"):
        return "parallel initialisation"
    for k in up:
        if k.startswith("regression.momentum") or k.startswith("growing.") and k not in ("growing.ndirs_initial",) or k.startswith("restarts.auto_detect") \
                or k in ("restarts.soft.num_geom_steps", "restarts.soft.move_xk", "restarts.increase_npt_amt", "restarts.hard.increase_ndirs_initial_amt",
                         "general.safety_step_thresh", "init.random_initial_directions"):
            return "option %s" % k
    if inst.get("growing") and inst.get("incnpt"):
        return "growing + increasing npt"
    return None


def snapshots(t):
    ev = t["ev"]
    snaps = []
    nf = nx = 0
    m = dict(EMPTY_M)
    vals = set()
    dirty = False
    last = None

    def flush():
        nonlocal dirty, vals, last
        if dirty:
            cur = (nf, nx, json.dumps(m, sort_keys=True))
            snaps.append(dict(kind="state", nf=nf, nx=nx, m=dict(m), v=sorted(vals)))
            last = cur
            vals = set()
            dirty = False
    for e in ev:
        name = e["ev"]
        if name in STOP and name != "Interp":
            flush()
        if name == "Interp":
            flush()
        if name == "RunBegin":
            m = dict(EMPTY_M)
        elif name == "LogEval":
            nf, nx = int(e["i"]), int(e["j"])
            dirty = True
        elif name == "Call":
            vals.add(int(e["f"]))
        if name in MODEL and "m" in e:
            pm = e["m"]
            m = {k: pm[k] for k in MKEYS}
            vals.update(int(v) for v in pm["obj"])
            if pm["hassave"]:
                vals.add(int(pm["objsave"]))
            dirty = True
        if name == "RunEnd":
            vals.add(int(e["obj"]))
            snaps.append(dict(kind="runend", nf=int(e["nf"]), nx=int(e["nx"]), nruns=int(e["nruns"]) - 1, flag=int(e["flag"]), msg=e["msgc"], v=sorted(vals), m=dict(EMPTY_M)))
            vals = set()
        elif name == "Return":
            snaps.append(dict(kind="return", nf=int(e["nf"]), nx=int(e["nx"]), nruns=int(e["nruns"]), flag=int(e["flag"]), msg=e["msgc"], obj=int(e["obj"]), en=int(e["en"]),
                              v=[], m=dict(EMPTY_M)))
    return snaps


def constants(inst, t, snaps):
    ev = t["ev"]
    up = inst.get("user_params") or {}
    rb = [e for e in ev if e["ev"] == "RunBegin"]
    top = 0
    for s in snaps:
        for v in list(s["v"]) + list(s["m"]["obj"]):
            if v > top and v < 10 ** 8:
                top = v
    ret = [e for e in ev if e["ev"] == "Return"][-1]
    small = "NoSmall"
    ends = [e for e in ev if e["ev"] == "RunEnd" and e["msgc"] == "small"]
    if ends:
        small = str(max(int(e["obj"]) for e in ends))
    maxs = max([1] + [int(e["req"]) for e in ev if e["ev"] == "EvalBegin"] + [int(v) for e in ev if e["ev"] == "ModelInit" for v in e["m"]["ns"]])
    restarts = inst.get("restarts")
    nred = sum(1 for e in ev if e["ev"] == "ReduceRho")
    nrest = len(rb) + sum(1 for e in ev if e["ev"] == "SoftEnd")
    c = dict(MaxFun=int(inst.get("maxfun", 60)), NPT=int(rb[0]["npt"]), VMax=top + 1, Small=small, MaxSamples=maxs, WithInf=True,
             UseRestarts=bool(restarts) or bool(inst.get("noiseflag")), SoftRestarts=(restarts in (None, "soft")), MaxUnsucc=int(inst.get("maxunsucc", up.get("restarts.max_unsuccessful_restarts", 10))),
             NumGeom=3, MoveXk=True, UseOldRk=(restarts != "hardnew"), IncNpt=int(inst.get("incnpt") or 0), RhoLevels=nred + 2,
             RhoendScaleDrop=1 if float(inst.get("rhoend_scale", 1.0)) < 1.0 else 0, MaxRuns=nrest + 3, NdirsInit=int(up.get("growing.ndirs_initial", 0) or 0), RhoDropAny=True,
             WithNoise=bool(up.get("noise.quit_on_noise_level") or inst.get("noiseflag")), RegSteps=int(up.get("regression.num_extra_steps", 0) or 0), WithAuto=True, WithFalseSuccess=True)
    return c


def _cfg_text(c, invariants, max_silent):
    from . import modelcheck as mc
    full = dict(mc.DFOLS_DEFAULTS)
    full.update(c)
    lines = ["SPECIFICATION TraceSpec", "CONSTANTS"]
    for k, v in full.items():
        if k == "Small":
            lines.append("  Small <- NoSmall" if v in ("NoSmall", None) else "  Small = %s" % v)
        elif isinstance(v, bool):
            lines.append("  %s = %s" % (k, "TRUE" if v else "FALSE"))
        else:
            lines.append("  %s = %s" % (k, v))
    lines.append("  MaxSilent = %d" % max_silent)
    lines.append("  EvalVals <- TraceEvalVals")
    lines += ["INVARIANT %s" % i for i in invariants]
    lines += ["CONSTRAINT Progress", "POSTCONDITION Post", "CHECK_DEADLOCK FALSE"]
    return "\n".join(lines) + "\n"


def check_one(args):
    """-> dict(id, accepted, reached, total, violated=[invariant names], skipped=reason-or-None, wall)"""
    inst, t, wd = args
    why = modelled(inst, t)
    if why:
        return dict(id=t["id"], skipped=why)
    snaps = snapshots(t)
    c = constants(inst, t, snaps)
    os.makedirs(wd, exist_ok=True)
    tf = os.path.join(wd, "trace.json")
    with open(tf, "w") as f:
        json.dump(dict(id=int(t["id"]), snaps=snaps), f)
    cfg = os.path.join(wd, "DfolsCtl.cfg")
    with open(cfg, "w") as f:
        f.write(_cfg_text(c, list(INVARIANTS), 6))
    r = vlib.run_tlc("DfolsCtl.tla", cfg, os.path.join(wd, "t"), workers=1, heap="2g", env={"TRACE_FILE": tf, "JAVA_TOOL_OPTIONS": "-Dtlc2.tool.queue.IStateQueue=StateDeque"}, timeout=600)
    m = re.search(r'<<\s*"CTL",\s*(-?\d+),\s*(\d+),\s*(\d+)\s*>>', r["out"])
    reached, total = (int(m.group(2)), int(m.group(3))) if m else (-1, len(snaps))
    return dict(id=t["id"], skipped=None, accepted=bool(m) and reached == total, reached=reached, total=total, violated=[v for v in r["violated"] if v in INVARIANTS],
                wall=r["wall"], consts=c, out_tail=r["out"][-1500:] if not m else "", next_snap=(snaps[reached] if 0 <= reached < len(snaps) else None),
                prev_snap=(snaps[reached - 1] if 1 <= reached <= len(snaps) else None))
