"""code -> spec for the control machine: recorded runs of the real dfols.solve checked against Dfols.tla (spec/DfolsCtl.tla).

snapshots(t)   the recorded event stream reduced to snapshots of the observable state (purely syntactic: counters come from the solver's own log lines,
               the model projection from the recorder's Model events; an evaluation and the Model calls that consume it form one group, flushed before
               the next control event)
constants(...) the run's own constants for Dfols.tla, written literally into the TLC configuration
validate(...)  one TLC process per run (depth-first queue), accepted <=> the last snapshot is reached; the Appendix-B invariants are evaluated on
               the behaviour found
"""
import json
import os
import re

from . import vlib

STOP = {"EvalBegin", "Interp", "SoftBegin", "SoftEnd", "ReduceRho", "Final", "RunEnd", "RunBegin", "Return", "Raise", "Hang", "ShiftBase", "Swap"}
MODEL = {"ModelInit", "ChangePoint", "AddSample", "AddPoint", "SavePoint", "Interp"}
EMPTY_M = dict(npt=0, numpts=0, kopt=0, en=[], ns=[], obj=[], hassave=False, objsave=0, ensave=-1, nssave=-1, jacen=[])
MKEYS = ("npt", "numpts", "kopt", "en", "ns", "obj", "hassave", "objsave", "ensave", "nssave", "jacen")

INVARIANTS = {"C02_Budget": "C02", "C02_Counters": "C02", "C02_NfIsSum": "C02", "C02_Samples": "C02", "C03_EveryIter": "C03", "C03_Returned": "C03",
              "C04_BestKept": "C04", "C04_EveryIter": "C04", "C08_FiniteRetained": "C08", "C10_SmallTruth": "C10", "C10_RhoendTruth": "C10",
              "C10_MaxfunTruth": "C10", "C10_UnsuccTruth": "C10", "C10_Nruns": "C10", "C10_SuccessFinite": "C10", "C07_DocumentedFlag": "C07",
              "C11_JacNames": "C11", "C11_Snapshot": "C11", "C18_Radii": "C18"}


def modelled(inst, t):
    """is the run inside the option space Dfols.tla models?  (reason when not)"""
    up = inst.get("user_params") or {}
    if any(e["ev"] == "Swap" for e in t["ev"]):
        return "point swaps (initial sets with more than n+1 points) are not in Dfols.tla"
    if any(e["ev"] in ("Raise", "Hang") for e in t["ev"]):
        return "the run did not return"
    if any(e["ev"] == "Return" and e.get("inputerr") for e in t["ev"]):
        return "input error (no run)"
    if t["cfg"].get("parallel"):
        return "parallel initialisation"
    for k in up:
        if k == "growing.do_geom_steps":
            continue
        # (restarts.auto_detect.* only move the moment at which the auto-detected restart fires - an environment choice in Dfols.tla; momentum steps
        #  evaluate into the furthest slots exactly like the geometry variant of the regression steps)
        if k.startswith("growing.") and k not in ("growing.ndirs_initial", "growing.num_new_dirns_each_iter") \
                or k in ("restarts.soft.num_geom_steps", "restarts.soft.move_xk", "restarts.increase_npt_amt", "restarts.hard.increase_ndirs_initial_amt",
                         "general.safety_step_thresh", "init.random_initial_directions"):
            return "option %s" % k
    if inst.get("growing") and inst.get("incnpt"):
        return "growing + increasing npt"
    return None


def snapshots(t):
    ev = t["ev"]
    # radius level (see DfolsCtl.tla, RhoMatches): K minus the reductions of rho in the current run, -1 once rho has reached rhoend
    runs_red, cur = [], 0
    for e in ev:
        if e["ev"] == "RunBegin" or (e["ev"] == "SoftEnd" and e.get("ok")):
            runs_red.append(cur)
            cur = 0
        elif e["ev"] == "ReduceRho":
            cur += 1
    runs_red.append(cur)
    K = max(runs_red) + 1
    rl = K
    insoft = False
    snaps = []
    nf = nx = 0
    m = dict(EMPTY_M)
    vals = set()
    dirty = False
    last = None

    prev_objs = []

    def flush():
        nonlocal dirty, vals, last, prev_objs
        if dirty:
            # values the environment produced on the way here: every sample's objective (Call events) and whatever is new in the model projection
            cur_objs = list(m["obj"]) + ([m["objsave"]] if m["hassave"] else [])
            rest = list(prev_objs)
            for v in cur_objs:
                if v in rest:
                    rest.remove(v)
                else:
                    vals.add(int(v))
            snaps.append(dict(kind="state", nf=nf, nx=nx, m=dict(m), v=sorted(vals), rl=rl))
            prev_objs = cur_objs
            vals = set()
            dirty = False
    for e in ev:
        name = e["ev"]
        if name in STOP and name != "Interp":
            flush()
        if name == "Interp":
            flush()
        if name == "RunBegin":
            m = dict(EMPTY_M)
            prev_objs = []
            rl = K
        elif name == "SoftBegin":
            insoft = True
        elif name in ("EvalBegin", "SoftEnd"):
            insoft = False
        elif name == "SavePoint" and insoft:
            rl = K                  # an admitted soft restart saves the incumbent and resets the radii
        elif name == "ReduceRho":
            rl = -1 if e["rho"] == e["rhoendc"] else (rl - 1 if rl > 0 else rl)
            dirty = True
        elif name == "LogEval":
            nf, nx = int(e["i"]), int(e["j"])
            dirty = True
        elif name == "Call":
            vals.add(int(e["f"]))
        if name in MODEL and "m" in e:
            pm = e["m"]
            if name in ("ChangePoint", "AddPoint") and "k" in e and 0 <= int(e["k"]) < len(pm["obj"]):
                vals.add(int(pm["obj"][int(e["k"])]))       # the first sample's objective (before further samples are averaged in)
            elif name == "AddPoint":
                vals.add(int(pm["obj"][-1]))
            m = {k: pm[k] for k in MKEYS}
            dirty = True
        if name == "RunEnd":
            vals.add(int(e["obj"]))
            if snaps and snaps[-1]["kind"] == "state" and int(e["obj"]) not in snaps[-1]["v"]:
                snaps[-1]["v"] = sorted(snaps[-1]["v"] + [int(e["obj"])])     # the objective of a mean that never entered a model (exit while sampling x0)
            snaps.append(dict(kind="runend", rl=rl, nf=int(e["nf"]), nx=int(e["nx"]), nruns=int(e["nruns"]), flag=int(e["flag"]), msg=e["msgc"], v=sorted(vals), m=dict(EMPTY_M)))
            vals = set()
        elif name == "Return":
            snaps.append(dict(kind="return", rl=rl, nf=int(e["nf"]), nx=int(e["nx"]), nruns=int(e["nruns"]), flag=int(e["flag"]), msg=e["msgc"], obj=int(e["obj"]), en=int(e["en"]),
                              v=[], m=dict(EMPTY_M)))
    return snaps


def _rho_levels(ev):
    runs_red, cur = [], 0
    for e in ev:
        if e["ev"] == "RunBegin" or (e["ev"] == "SoftEnd" and e.get("ok")):
            runs_red.append(cur)
            cur = 0
        elif e["ev"] == "ReduceRho":
            cur += 1
    runs_red.append(cur)
    return max(runs_red) + 1


def constants(inst, t, snaps):
    ev = t["ev"]
    up = inst.get("user_params") or {}
    rb = [e for e in ev if e["ev"] == "RunBegin"]
    top = int(t["top"]) - 1          # Dfols.tla: Inf == VMax + 1; the recorder codes +inf as its `top`
    ret = [e for e in ev if e["ev"] == "Return"][-1]
    small = "NoSmall"
    ends = [e for e in ev if e["ev"] == "RunEnd" and e["msgc"] == "small"]
    if ends:
        small = str(max(int(e["obj"]) for e in ends))
    maxs = max([1] + [int(e["req"]) for e in ev if e["ev"] == "EvalBegin"] + [int(v) for e in ev if e["ev"] == "ModelInit" for v in e["m"]["ns"]]
               + [int(e["ret"]) for e in ev if e["ev"] == "NSamples"])
    restarts = inst.get("restarts")
    nred = sum(1 for e in ev if e["ev"] == "ReduceRho")
    nrest = len(rb) + sum(1 for e in ev if e["ev"] == "SoftEnd")
    c = dict(MaxFun=int(inst.get("maxfun", 60)), NPT=int(rb[0]["npt"]), VMax=top, Small=small, MaxSamples=maxs, WithInf=True,
             UseRestarts=bool(restarts) or bool(inst.get("noise")), SoftRestarts=(restarts in (None, "soft")), MaxUnsucc=int(inst.get("maxunsucc", up.get("restarts.max_unsuccessful_restarts", 10))),
             NumGeom=3, MoveXk=True, UseOldRk=(restarts != "hardnew"), IncNpt=int(inst.get("incnpt") or 0), RhoLevels=int(snaps[0].get("K", 0)) if False else _rho_levels(ev),
             RhoendScaleDrop=1 if float(inst.get("rhoend_scale", 1.0)) < 1.0 else 0, MaxRuns=nrest + 3, NdirsInit=int(inst.get("growing") or up.get("growing.ndirs_initial", 0) or 0), RhoDropAny=True, NoisyObjective=not bool(t["cfg"]["det"]), WithHuge=True, NewDirs=int(up.get("growing.num_new_dirns_each_iter", 0) or 0), GrowGeom=bool(up.get("growing.do_geom_steps", False)), RegInc=int(up.get("regression.increase_num_extra_steps_with_restart", 0) or 0),
             WithNoise=bool(up.get("noise.quit_on_noise_level") or inst.get("noise")), RegSteps=int(up.get("regression.num_extra_steps", 0) or 0), WithAuto=True, WithFalseSuccess=True)
    return c


def _cfg_text(c, invariants, max_silent):
    from . import modelcheck as mc
    full = dict(mc.DFOLS_DEFAULTS)
    full.update(c)
    lines = ["SPECIFICATION TraceSpec", "CONSTANTS"]
    for k, v in full.items():
        if k == "Small":
            lines.append("  Small <- NoSmall" if v in ("NoSmall", None) else "  Small = %s" % v)
        elif isinstance(v, bool):
            lines.append("  %s = %s" % (k, "TRUE" if v else "FALSE"))
        else:
            lines.append("  %s = %s" % (k, v))
    lines.append("  MaxSilent = %d" % max_silent)
    lines.append("  EvalVals <- TraceEvalVals")
    lines += ["INVARIANT %s" % i for i in invariants]
    lines += ["CONSTRAINT Progress", "VIEW CtlView", "POSTCONDITION Post", "CHECK_DEADLOCK FALSE"]
    return "\n".join(lines) + "\n"


def conformance_part(prop, insts, traces, V, workdir, count):
    """sample `count` recorded runs inside the modelled option space, check each against Dfols.tla; invariant failures on the behaviour found are
    violations of the owning property, rejections are conformance notes (the specification does not describe the run)"""
    import multiprocessing as mp
    import shutil
    byid = {i["id"]: i for i in insts}
    cand, why = [], {}
    for t in traces:
        r = modelled(byid[t["id"]], t)
        if r is None and t["summary"]["nev"] > 2500:
            r = "more than 2500 events"
        if r is None and (t["cfg"].get("maxnpt") or 0) > 12:
            r = "more than 12 interpolation points"
        if r is None:
            cand.append(t)
        else:
            why[r] = why.get(r, 0) + 1
    skipped = len(traces) - len(cand)
    step = max(1, len(cand) // max(1, count))
    sel = cand[::step][:count]
    jobs = [(byid[t["id"]], t, os.path.join(workdir, "c%d" % t["id"])) for t in sel]
    if not jobs:
        return dict(control_conformance=dict(checked=0, accepted=0, rejected=0, outside_model=skipped, outside_model_why=why))
    with mp.get_context("fork").Pool(min(16, vlib.NCPU)) as pool:
        res = pool.map(check_one, jobs, chunksize=1)
    acc = [r for r in res if r.get("accepted")]
    rej = [r for r in res if not r.get("skipped") and not r.get("accepted")]
    for r in res:
        for inv in r.get("violated") or []:
            if INVARIANTS.get(inv) == prop:
                V.report(dict(clause="ctl_" + inv, site="Dfols.tla", cls=sc_class(byid[r["id"]]), what="recorded run %d, followed in Dfols.tla with its own constants: invariant %s fails on the behaviour" % (r["id"], inv),
                              instance=dict(kind="solver", inst=byid[r["id"]])))
    for r in rej[:3]:
        print("NOTE: Dfols.tla does not describe recorded run %d beyond snapshot %s of %s (conformance, not a %s verdict): next %s"
              % (r["id"], r.get("reached"), r.get("total"), prop, json.dumps(r.get("next_snap"))[:300]))
    for j in jobs:
        shutil.rmtree(j[2], ignore_errors=True)
    errs = [r["skipped"] for r in res if r.get("skipped")]
    return dict(control_conformance=dict(checked=len(res), accepted=len(acc), rejected=len(rej), machinery_errors=errs[:5], rejected_ids=[r["id"] for r in rej][:10], outside_model=skipped, outside_model_why=why,
                                         inside_model_not_sampled=len(cand) - len(sel),
                                         snapshots=sum(r.get("total", 0) for r in acc), tlc_wall_max=round(max([r.get("wall", 0) for r in res] or [0]), 1),
                                         invariants_evaluated=sorted(INVARIANTS)))


def sc_class(inst):
    from . import solverchecks as sc
    return sc.cfg_class(inst)


def check_one(args):
    try:
        return _check_one(args)
    except Exception as e:  # noqa  (the conformance part is an addition to the property's own clauses: its failures are counted, never fatal)
        return dict(id=args[1]["id"], skipped="conformance machinery: %s: %s" % (type(e).__name__, str(e)[:120]))


def _check_one(args):
    """-> dict(id, accepted, reached, total, violated=[invariant names], skipped=reason-or-None, wall)"""
    inst, t, wd = args
    why = modelled(inst, t)
    if why:
        return dict(id=t["id"], skipped=why)
    snaps = snapshots(t)
    c = constants(inst, t, snaps)
    os.makedirs(wd, exist_ok=True)
    tf = os.path.join(wd, "trace.json")
    with open(tf, "w") as f:
        json.dump(dict(id=int(t["id"]), snaps=snaps), f)
    cfg = os.path.join(wd, "DfolsCtl.cfg")
    with open(cfg, "w") as f:
        f.write(_cfg_text(c, list(INVARIANTS), 6))
    r = vlib.run_tlc("DfolsCtl.tla", cfg, os.path.join(wd, "t"), workers=1, heap="2g", env={"TRACE_FILE": tf, "JAVA_TOOL_OPTIONS": "-Dtlc2.tool.queue.IStateQueue=StateDeque"}, timeout=300)
    m = re.search(r'<<\s*"CTL",\s*(-?\d+),\s*(\d+),\s*(\d+)\s*>>', r["out"])
    reached, total = (int(m.group(2)), int(m.group(3))) if m else (-1, len(snaps))
    return dict(id=t["id"], skipped=None, accepted=bool(m) and reached == total, reached=reached, total=total, violated=[v for v in r["violated"] if v in INVARIANTS],
                wall=r["wall"], consts=c, out_tail=r["out"][-1500:] if not m else "", next_snap=(snaps[reached] if 0 <= reached < len(snaps) else None),
                prev_snap=(snaps[reached - 1] if 1 <= reached <= len(snaps) else None))
