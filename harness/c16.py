"""C16 - interpolation models reproduce their data and survive base shifts.
  M: ModelMC.tla flag logic (C16_FactorCurrent: the cached factorisation is only declared current for the point set it was computed from)
  T: random interleavings of point replacement, base shifts, re-fits and Lagrange queries on the real Model (n <= 6, m <= 6, 2..2n+1 points,
     spreads over 4 decades, base points up to 1e6 from the origin); identity classes computed by the driver, flags predicted by the specification
"""
import os

import numpy as np

from . import vlib, strace, modeldriver, c17


def run(tier):
    V = vlib.Verdict("C16", tier)
    wd = vlib.scratch()
    cov = c17.model_part(tier, V, os.path.join(wd, "mc"), invs=["TypeOK", "C16_FactorCurrent", "C16_JacSnapshot"], props=[])
    rng = np.random.default_rng([vlib.seed(), 16])
    n = 400 if tier == "quick" else 8000
    insts = []
    for i in range(n):
        nn = int(rng.integers(1, 7))
        cap = int(rng.integers(nn + 1, 2 * nn + 2))
        insts.append(dict(id=i + 1, seed=int(rng.integers(0, 2 ** 31 - 1)), n=nn, m=int(rng.integers(1, 7)), cap=cap,
                          ninit=int(rng.integers(2, cap + 1)), spread=float(rng.choice([1e-3, 1e-2, 1e-1, 1.0, 10.0])),
                          far=float(rng.choice([0.0, 1.0, 1e3, 1e6])), len=int(rng.choice([6, 12, 25])), precond=bool(rng.random() < 0.8)))
    # the same histories inside a finite box that is tight against the base shifts (0.6 .. 3 spreads a side): points on and near the bounds
    for j in range(160 if tier == "quick" else 3000):
        nn = int(rng.integers(1, 7))
        cap = int(rng.integers(nn + 1, 2 * nn + 2))
        insts.append(dict(id=n + 1 + j, seed=int(rng.integers(0, 2 ** 31 - 1)), n=nn, m=int(rng.integers(1, 7)), cap=cap, box=True,
                          ninit=int(rng.integers(2, cap + 1)), spread=float(rng.choice([1e-3, 1e-2, 1e-1, 1.0, 10.0])),
                          far=float(rng.choice([0.0, 1.0, 1e3, 5e3])), len=int(rng.choice([6, 12, 25])), precond=bool(rng.random() < 0.8)))
    import multiprocessing as mp
    ctx = mp.get_context("fork")
    with ctx.Pool(min(16, vlib.NCPU)) as pool:
        traces = pool.map(modeldriver.c16_trace, insts, chunksize=8)
    for t in traces:
        if "machinery" in t:
            raise vlib.MachineryError(t["machinery"])
    res = strace.validate("C16", traces, os.path.join(wd, "tr"))
    byid = {i["id"]: i for i in insts}
    tr = {t["id"]: t for t in traces}
    hits = {}
    for tid, viols in res["per"].items():
        seen = set()
        for clause, l in viols:
            hits[clause] = hits.get(clause, 0) + 1
            evname = tr[tid]["ev"][l - 1]["ev"]
            if (clause, evname) in seen:
                continue
            seen.add((clause, evname))
            V.report(dict(clause=clause, site=evname, cls="n%d" % byid[tid]["n"], what="model trace %d event %d (%s): clause %s false" % (tid, l, evname, clause),
                          instance=dict(kind="c16_sequence", inst=byid[tid]), window=tr[tid]["ev"][max(0, l - 3):l]))
    nident = sum(t["summary"]["nident"] for t in traces)
    worst = max(t["summary"]["worst"] for t in traces)
    cov.update(traces_validated_against_impl=len(traces), trace_events=sum(t["summary"]["nev"] for t in traces), identities_evaluated=nident,
               worst_error_over_bound=worst, clause_failures=hits, evaluations=len(traces), distinct_nontrivial=len(set((i["n"], i["cap"], i["spread"], i["far"]) for i in insts)),
               samples=[dict(instance=insts[0], events=traces[0]["ev"][:4])],
               rule="random interleavings per (n, capacity, spread, distance of the base point) class; identities evaluated only when the conditioning-scaled tolerance is < 1e-3")
    return V.finish(cov, "model_checking", ["tolerance 1e3*eps*cond(W)*(1+|points|/spread) relative to the data scale (three orders above what clean runs produce)",
                                            "identities whose tolerance exceeds 1e-3 are counted as not evaluable"])
