"""bin/check <id> --replay <file>: re-run ONE recorded instance through the same machinery that reported it and print the failing clause,
the observed events around it and (for model-level items) the operation sequence.  Exit 1 if the violation reproduces, 0 if not."""
import json
import os

from . import vlib


def replay(path):
    d = json.load(open(path))
    if "seed" in d:
        os.environ["VERIF_SEED"] = str(d["seed"])      # concretisations are drawn from (seed, class, index): replay under the seed of the reporting run
    prop = d["property"]
    v = d["violation"]
    inst = v.get("instance", {})
    kind = inst.get("kind")
    print("property %s  clause %s  site %s" % (prop, v.get("clause"), v.get("site")))
    print("reported: %s" % str(v.get("what"))[:600])
    wd = vlib.scratch()
    if kind == "solver":
        from . import strace
        ii = dict(inst["inst"])
        if ii.get("refid"):
            # C19: the comparison needs its reference run (generator state A, no warm-up solve); every run in a process of its own, as in the check
            ref = dict(ii, id=ii["refid"], rng_state=12345)
            ref.pop("refid", None)
            ref.pop("warm", None)
            pair = strace.record_many([ref, ii, dict(ref, id=-1)])[:2]
            t = pair[1]
            res = strace.validate(prop, pair, os.path.join(wd, "tr"))
        else:
            t = strace.record_one(ii)
            if "machinery" in t:
                raise vlib.MachineryError(t["machinery"])
            res = strace.validate(prop, [t], os.path.join(wd, "tr"))
        viols = res["per"][t["id"]]
        print("instance: %s" % json.dumps(inst["inst"]))
        print("outcome: %s" % t["summary"])
        for clause, l in viols:
            print("  clause %s false at event %d:" % (clause, l))
            for e in t["ev"][max(0, l - 3):l]:
                print("     %s" % json.dumps(e)[:500])
        return 1 if viols else 0
    if kind == "model":
        from . import modelcheck as mc
        if inst.get("module", "Dfols.tla") == "Dfols.tla":
            r = mc.run_dfols(os.path.join(wd, "m"), "replay", inst.get("constants", {}), invariants=inst.get("invariants"), props=inst.get("props"),
                             liveness=bool(inst.get("liveness")))
            print("TLC: violated=%s distinct=%d" % (r["violated"], r["distinct"]))
            i = r["out"].find("Error:")
            if i >= 0:
                print(r["out"][i:i + 3000])
            return 1 if r["violated"] else 0
        print("re-run the check: the model configuration is in the replay file")
        return 0
    if kind == "model_path":
        from . import replay_model as rm
        dv = rm.replay_path(inst["path"], inst["with_h"])
        for rec in inst["path"]:
            print("   %s" % json.dumps({k: x for k, x in rec.items() if k != "post"}))
        print("divergence: %s" % (dv and dv["what"]))
        return 1 if dv else 0
    if kind == "driven_replay":
        print("constants: %s" % inst["constants"])
        for b in inst["behaviour"]:
            print("   %s" % json.dumps(b))
        from . import replay_solve as rs, modelcheck as mc
        consts = dict(mc.DFOLS_DEFAULTS)
        consts.update(inst["constants"])
        tf = os.path.join(wd, "behaviour.tla")
        with open(tf, "w") as f:
            f.write(inst["tlc_trace"])
        out = rs.replay_file((tf, consts, False))
        if "machinery" in out:
            raise vlib.MachineryError(out["machinery"])
        print("re-driven through the real solve: %s" % (out.get("divergence") or "the real code follows the behaviour"))
        return 1 if "divergence" in out else 0
    if kind == "api_state":
        from . import c07
        o = c07.run_state((inst["state"], vlib.seed()))
        bad = c07.judge(o)
        print("state: %s" % json.dumps(inst["state"]))
        print("observed: %s" % {k: o.get(k) for k in ("outcome", "flag", "nf", "calls", "msg", "exc")})
        for c, w in bad:
            print("  clause %s: %s" % (c, w))
        return 1 if bad else 0
    if kind == "res_state":
        from . import c20
        n, bad = c20.run_states(([inst["state"]], vlib.seed()))
        print("state: %s  -> %s" % (json.dumps(inst["state"]), "round trip FAILS" if bad else "round trip ok"))
        return 1 if bad else 0
    if kind == "init_state":
        from . import c14
        n, bad, _ = c14.replay_init(([inst["state"]], vlib.seed()))
        print("state: %s" % json.dumps(inst["state"]))
        for b in bad:
            print("  %s (%s): %s" % (b["clause"], b["variant"], b["what"]))
        return 1 if bad else 0
    if kind == "radii_state":
        from . import c18
        bad = c18.replay_radii([inst["state"]])
        print("state: %s" % json.dumps(inst["state"]))
        for b in bad:
            print("  clause %s: %s" % (b["clause"], b["what"]))
        return 1 if bad else 0
    if kind == "convexinit_state":
        from . import c19
        st = inst["state"]
        _, finals, _ = c19.tlc_convexinit(os.path.join(wd, "ci"), st["n"], 4 * st["n"])
        n, bad, notes = c19.replay_states(([st], finals, vlib.seed()))
        print("state: %s" % json.dumps(st))
        for b in bad:
            print("  clause %s: %s" % (b["clause"], b["what"]))
        for nt in notes:
            print("  conformance note: %s" % nt["what"])
        return 1 if bad else 0
    if kind == "dirgen_state":
        from . import c14
        n, bad = c14.replay_dirgen(([inst["state"]], vlib.seed()))
        for b in bad:
            print("  %s block %s: %s" % (b["clause"], b["block"], b["what"]))
        return 1 if bad else 0
    if kind in ("c17_sequence", "c16_sequence", "c15_instance"):
        from . import strace, modeldriver, c15
        fn = {"c17_sequence": modeldriver.c17_trace, "c16_sequence": modeldriver.c16_trace, "c15_instance": c15.c15_trace}[kind]
        t = fn(inst["inst"])
        if "machinery" in t:
            raise vlib.MachineryError(t["machinery"])
        res = strace.validate(prop, [t], os.path.join(wd, "tr"))
        viols = res["per"][t["id"]]
        print("instance: %s" % json.dumps(inst["inst"]))
        for clause, l in viols:
            print("  clause %s false at event %d: %s" % (clause, l, json.dumps(t["ev"][l - 1])[:600]))
        return 1 if viols else 0
    if kind == "kernel_state":
        from . import kernels, strace
        t = kernels.kernel_trace((inst["chunk"], [inst["state"]] * (inst["index"] + 1), vlib.seed(), inst["reps"]))
        res = strace.validate(prop, [t], os.path.join(wd, "tr"))
        viols = [x for x in res["per"][t["id"]] if t["ev"][x[1] - 1]["st"] == inst["index"]]
        print("class pattern: %s" % json.dumps(inst["state"]))
        for clause, l in viols:
            print("  clause %s false: %s" % (clause, json.dumps(t["ev"][l - 1])[:400]))
        return 1 if viols else 0
    if kind == "trsbox_machine":
        from . import trsboxmachine
        print("source of the call: %s" % json.dumps(inst["src"])[:600])
        return trsboxmachine.replay_call(inst, os.path.join(wd, "tm"))
    print("no replayer for instance kind %r; the replay file holds the instance" % kind)
    return 0
