"""C07 - solve always returns a well-formed result; bad input is reported, not raised.

R-Api: every state of DfolsApi.tla (argument-class combinations, per-key value classes, the unknown key) is enumerated by TLC together
with the outcome the specification predicts; each state is concretised into ONE call of the real dfols.solve and the observed outcome
is compared with the prediction:
   predicted "inputerr"   -> returns (no exception), flag == EXIT_INPUT_ERROR, objective never called, nf == 0, non-empty message, str() works
   predicted "runs"       -> returns (no exception, no hang) with a documented flag, non-empty message, str() works
   predicted "valueerror" -> raises ValueError (unknown parameter name)
plus: the result object exposes every exit-code constant named in docs/userguide.rst.
"""
import json
import os
import signal
import time
import warnings

import numpy as np

from . import vlib

DOCUMENTED_FLAGS = {0, 1, 2, 3, 5, -1, -2, -3, -4}
USERGUIDE_CONSTANTS = ["EXIT_SUCCESS", "EXIT_MAXFUN_WARNING", "EXIT_SLOW_WARNING", "EXIT_FALSE_SUCCESS_WARNING", "EXIT_TR_INCREASE_WARNING",
                       "EXIT_INPUT_ERROR", "EXIT_TR_INCREASE_ERROR", "EXIT_LINALG_ERROR", "EXIT_EVAL_ERROR"]


class _Hang(BaseException):
    pass


def _alarm(s, f):
    raise _Hang()


def tlc_states(wd, kinds=("arg", "key", "unknown")):
    cfg = os.path.join(wd, "api.cfg")
    os.makedirs(wd, exist_ok=True)
    with open(cfg, "w") as f:
        f.write("SPECIFICATION Spec\nINVARIANT TableOK\nINVARIANT ValidateTotal\nINVARIANT EmitInv\nCHECK_DEADLOCK FALSE\n")
    r = vlib.run_tlc("DfolsApi.tla", cfg, os.path.join(wd, "api"), workers=4, heap="4g", timeout=900)
    vlib.tlc_machinery_check(r, "DfolsApi.tla")
    if r["violated"]:
        raise vlib.MachineryError("DfolsApi.tla table invariants violated: %s" % r["violated"])
    states = []
    for line in r["out"].splitlines():
        line = line.strip()
        if line.startswith('"STATE'):
            s = json.loads(json.loads(line)[5:])
            if s["kind"] in kinds:
                states.append(s)
    return states, r


def _value_for(row, cls, n, npt):
    t = row["type"]

    def num(sym):
        if sym == "npt":
            return npt
        if sym == "npt-1":
            return npt - 1
        return float(sym) if t == "float" else int(sym)
    if cls == "wrongtype":
        return "yes"
    if cls == "nan":
        return float("nan")
    if cls == "true":
        return True
    if cls == "false":
        return False
    lo = None if row["lo"] == "none" else num(row["lo"])
    hi = None if row["hi"] == "none" else num(row["hi"])
    one = 1.0 if t == "float" else 1
    if cls == "atlo":
        return lo
    if cls == "athi":
        return hi
    if cls == "below":
        return lo - one
    if cls == "above":
        return hi + one
    # default: an in-range value
    if lo is not None and hi is not None:
        v = (lo + hi) / 2 if t == "float" else (lo + hi) // 2
        return v
    if lo is not None:
        return lo + one
    if hi is not None:
        return hi - one
    return 1.5 if t == "float" else 2


def concretise(state, seed):
    """-> (description dict, kwargs builder) ; n = 2 so that npt-dependent ranges are small"""
    n = 2
    rng = np.random.default_rng([seed, 7])
    mm = 1 if (state["kind"] == "key" and state["st"].get("shape") == "under") else 3
    A = rng.normal(size=(mm, n))
    b = rng.normal(size=mm)
    kw = dict(rhobeg=0.1, rhoend=1e-6, maxfun=25)
    up = {}
    npt = n + 1
    if state["kind"] == "arg":
        a = state["st"]
        h = lambda x: 0.1 * float(np.sum(np.abs(x)))
        prox = lambda x, u: np.sign(x) * np.maximum(np.abs(x) - 0.1 * u, 0.0)
        if a["hreg"] == "ok":
            kw.update(h=h, lh=0.1 * np.sqrt(n), prox_uh=prox, maxfun=8)
        elif a["hreg"] == "noprox":
            kw.update(h=h, lh=0.2)
        elif a["hreg"] == "nolh":
            kw.update(h=h, prox_uh=prox)
        elif a["hreg"] == "lhzero":
            kw.update(h=h, lh=0.0, prox_uh=prox)
        if a["npt"] == "small":
            kw["npt"] = n
        if a["rhobeg"] == "zero":
            kw["rhobeg"] = 0.0
        elif a["rhobeg"] == "neg":
            kw["rhobeg"] = -0.1
        if a["rhoend"] == "neg":
            kw["rhoend"] = -1e-6
        if a["order"] != "ok" and a["rhobeg"] == "ok" and a["rhoend"] == "ok":
            kw["rhoend"] = 0.2
        if a["maxfun"] == "zero":
            kw["maxfun"] = 0
        if a["gap"] == "narrow":
            kw["bounds"] = (np.array([-0.05, -5.0]), np.array([0.1, 5.0]))
        elif a["gap"] == "scaled_ok":        # in scaled units every box is [0,1]^n: 2*rhobeg = 0.2 <= 1 although the user box is narrower than 0.2
            kw.update(bounds=(np.array([-0.05, -5.0]), np.array([0.1, 5.0])), scaling_within_bounds=True)
        elif a["gap"] == "scaled_narrow":    # wide user box, but rhobeg = 0.6 scaled units > half the scaled box
            kw.update(bounds=(np.array([-10.0, -10.0]), np.array([10.0, 10.0])), scaling_within_bounds=True)
            if a["rhobeg"] == "ok":
                kw["rhobeg"] = 0.6
                if kw["rhoend"] == 0.2:
                    kw["rhoend"] = 0.7
        if a["safety"] == "both":
            up.update({"growing.safety.full_geom_step": True, "growing.safety.reduce_delta": True})
        if a["grow"] == "both":
            up["growing.perturb_trust_region_step"] = True
        if a["noise"] == "both":
            up.update({"noise.quit_on_noise_level": True, "noise.additive_noise_level": 0.1, "noise.multiplicative_noise_level": 0.1})
        if a["noise"] == "both_zero":
            up.update({"noise.quit_on_noise_level": True, "noise.additive_noise_level": 0.0, "noise.multiplicative_noise_level": 0.1})
        if a["par"] == "bad":
            up["init.run_in_parallel"] = True
        if a["reset"] == "bad":
            up["growing.reset_rho"] = True
    elif state["kind"] == "key":
        row, cls, key = state["st"]["row"], state["st"]["cls"], state["st"]["key"]
        # context in which the key is consulted
        if key.startswith("restarts.") and key != "restarts.use_restarts":
            up["restarts.use_restarts"] = True
            kw.update(rhoend=1e-2, maxfun=60)
        if key.startswith("restarts.hard") or key == "restarts.hard.increase_ndirs_initial_amt":
            up["restarts.use_soft_restarts"] = False
        if key.startswith("noise.") and key != "noise.quit_on_noise_level":
            up["noise.quit_on_noise_level"] = True
        if key.startswith("regression."):
            kw["npt"] = 2 * n + 1
            npt = 2 * n + 1
        if key in ("restarts.increase_npt_amt", "restarts.max_npt"):
            up["restarts.increase_npt"] = True
        if key == "restarts.increase_npt_amt":
            up["restarts.max_npt"] = npt + 2
        if key.startswith("init.random_directions") or key == "init.run_in_parallel":
            pass
        if key.startswith("growing.") and key not in ("growing.ndirs_initial", "growing.perturb_trust_region_step", "growing.reset_rho"):
            up["growing.ndirs_initial"] = 1
        if key == "growing.reset_rho" and cls == "true":
            pass   # dependency error predicted by the specification
        if cls == "explicit_default":
            # the value the parameter has when it is not given: read from the library's own parameter list for this problem size
            from dfols.params import ParameterList
            dflt = ParameterList(n, npt, int(kw["maxfun"]), objfun_has_noise=False)(key)
            if dflt is not None:
                up[key] = dflt
        else:
            up[key] = _value_for(row, cls, n, npt)
    else:
        up["no.such.parameter"] = 1
    if up:
        kw["user_params"] = up
    return dict(A=A, b=b, x0=rng.normal(size=n), kw=kw)


def run_state(args):
    state, seed = args
    dfols = vlib.import_dfols()
    C = concretise(state, seed)
    calls = [0]

    def f(x):
        calls[0] += 1
        return C["A"] @ x - C["b"] + 0.1 * np.sin(x).sum()
    out = dict(state=state, calls=0)
    old = signal.signal(signal.SIGALRM, _alarm)
    signal.setitimer(signal.ITIMER_REAL, 20.0)
    try:
        with warnings.catch_warnings(), np.errstate(all="ignore"):
            warnings.simplefilter("ignore")
            s = dfols.solve(f, C["x0"].copy(), **C["kw"])
        out["outcome"] = "inputerr" if s.flag == -1 else "runs"
        out["flag"] = int(s.flag)
        out["nf"] = int(s.nf)
        out["msg_ok"] = bool(isinstance(s.msg, str) and len(s.msg.strip()) > 0)
        try:
            out["str_ok"] = bool(len(str(s)) > 0)
        except Exception as e:  # noqa
            out["str_ok"] = False
            out["str_err"] = repr(e)
        out["consts_ok"] = all(hasattr(s, c) for c in USERGUIDE_CONSTANTS)
        out["msg"] = s.msg[:120]
    except _Hang:
        out["outcome"] = "hang"
    except ValueError as e:
        out["outcome"] = "valueerror"
        out["exc"] = repr(e)[:200]
    except Exception as e:  # noqa
        out["outcome"] = "raise:" + type(e).__name__
        out["exc"] = repr(e)[:200]
    finally:
        signal.setitimer(signal.ITIMER_REAL, 0)
        signal.signal(signal.SIGALRM, old)
    out["calls"] = calls[0]
    out["kw"] = {k: (v if isinstance(v, (int, float, str, bool, dict)) else "<obj>") for k, v in C["kw"].items()}
    return out


def judge(o):
    """-> list of (clause, what) for this state"""
    st = o["state"]
    exp = st["expected"]["outcome"]
    bad = []
    site = st["st"].get("key", "args")
    if exp == "valueerror":
        if o["outcome"] != "valueerror":
            bad.append(("unknown_key_raises_valueerror", "unknown parameter name gave %s" % o["outcome"]))
        return bad
    if o["outcome"] == "hang":
        bad.append(("terminates", "solve did not return within 20 s"))
        return bad
    if o["outcome"].startswith("raise") or o["outcome"] == "valueerror":
        bad.append(("no_exception", "solve raised %s" % o.get("exc")))
        return bad
    if exp == "inputerr":
        if o["outcome"] != "inputerr":
            bad.append(("invalid_input_reported", "invalid input (%s) accepted: flag %s, %d evaluations" % (st["expected"]["reason"], o.get("flag"), o["calls"])))
        elif o["nf"] != 0 or o["calls"] != 0:
            bad.append(("inputerr_zero_evaluations", "input error with nf=%s and %d calls of the objective" % (o["nf"], o["calls"])))
    else:
        if o["outcome"] == "inputerr":
            bad.append(("valid_input_not_rejected", "input in the documented domain rejected: %s" % o.get("msg")))
        elif o["flag"] not in DOCUMENTED_FLAGS:
            bad.append(("documented_flag", "flag %s is not a documented exit code (%s)" % (o["flag"], o.get("msg"))))
    if not o.get("msg_ok", False):
        bad.append(("nonempty_message", "empty message"))
    if not o.get("str_ok", False):
        bad.append(("printing_works", "str(result) failed: %s" % o.get("str_err")))
    if not o.get("consts_ok", False):
        bad.append(("exit_constants_exposed", "result object lacks an exit-code constant named in the user guide"))
    return bad


def run(tier):
    import multiprocessing as mp
    V = vlib.Verdict("C07", tier)
    wd = vlib.scratch()
    states, r = tlc_states(wd)
    if tier == "quick":
        # every key state and every argument state whose first failing check differs by position; argument states are thinned 1:4
        rng = np.random.default_rng([vlib.seed(), 70])
        arg = [s for s in states if s["kind"] == "arg"]
        keep = set(int(i) for i in rng.choice(len(arg), size=len(arg) // 4, replace=False))
        sel = [s for i, s in enumerate(arg) if i in keep or sum(1 for v in s["st"].values() if v not in ("ok", "none", "scaled_ok")) <= 2]
        states = sel + [s for s in states if s["kind"] != "arg"]
    ctx = mp.get_context("fork")
    with ctx.Pool(min(16, vlib.NCPU)) as pool:
        outs = pool.map(run_state, [(s, vlib.seed()) for s in states], chunksize=32)
    outcomes = {}
    nbad = 0
    for o in outs:
        k = "%s->%s" % (o["state"]["expected"]["outcome"], o["outcome"])
        outcomes[k] = outcomes.get(k, 0) + 1
        for clause, what in judge(o):
            st = o["state"]
            site = st["st"].get("key", "args")
            cls = st["st"].get("cls", st["expected"]["reason"])
            V.report(dict(clause=clause, site=site, cls=cls, what="%s [%s %s]: %s" % (clause, site, cls, what), instance=dict(kind="api_state", state=st, kw=o.get("kw"))))
            nbad += 1
    # design level: the flag handed back is documented on every path of Dfols.tla, and solve terminates (liveness under weak fairness)
    from . import solverchecks as sc
    mcov = sc.model_part("C07", tier, V, os.path.join(wd, "model"), with_liveness=True)
    # whole-solver runs in which the internal restart flags are live (hard restarts, eager auto-detection, budget at every position)
    AUTO = {"restarts.auto_detect.history": 3, "restarts.auto_detect.min_chgJ_slope": 0.0, "restarts.auto_detect.min_correl": 0.0}
    rng = np.random.default_rng([vlib.seed(), 71])
    insts = []
    for bi, base in enumerate([dict(n=2, m=2, prob="ros", restarts="hard", maxunsucc=3, noise_sd=1e-2, rhoend=1e-8, user_params=dict(AUTO)),
                               dict(n=2, m=2, prob="ros", restarts="hardnew", maxunsucc=2, noise_sd=1e-2, rhoend=1e-8, user_params=dict(AUTO)),
                               dict(n=2, m=3, prob="nl", restarts="soft", maxunsucc=2, noise_sd=1e-2, rhoend=1e-8, user_params=dict(AUTO))]):
        base["seed"] = int(rng.integers(0, 2 ** 31 - 1))
        for mf in range(6, 76, 1 if tier == "thorough" else 2):
            insts.append(dict(base, id=1000 * (bi + 1) + mf, maxfun=mf))
    # restarts.max_npt above (n+1)(n+2)/2 (legal: the range has no upper end) with restarts that add points until the cap is passed
    for j in range(4 if tier == "quick" else 24):
        insts.append(dict(id=5000 + j, seed=int(rng.integers(0, 2 ** 31 - 1)), n=2, m=4, prob="nl", restarts=["hard", "hardnew", "soft", "hard"][j % 4], maxunsucc=20, rhoend=1e-2,
                          maxfun=int(rng.integers(250, 400)), incnpt=1, maxnpt_over=int(rng.integers(1, 5))))
    # the set grown direction by direction towards more than n+1 points, from a start on the bounds (in the documented domain: a result, not an exception)
    for j in range(160 if tier == "quick" else 1200):
        nn = 2 if j % 3 else 3
        insts.append(dict(id=6000 + j, seed=int(rng.integers(0, 2 ** 31 - 1)), n=nn, m=nn + int(rng.integers(0, 3)), prob=["lin", "nl"][j % 2], bounds="both", bscale=1.5,
                          x0place=[str(rng.choice(["L", "in", "L"])) for _ in range(nn)], npt="2n+1", growing=1, maxfun=40, rhoend=1e-3, scaling=bool(j % 4 == 0)))
    # under-determined problems (m < n: the library switches its growing defaults on the first run) with every kind of restart actually happening
    for j in range(24 if tier == "quick" else 240):
        nn = 3 + j % 2
        insts.append(dict(id=17000 + j, seed=int(rng.integers(0, 2 ** 31 - 1)), n=nn, m=int(rng.integers(1, nn)), prob=["nl", "lin"][j % 2], restarts=["hard", "hardnew", "soft"][j % 3],
                          maxunsucc=3, noise_sd=1e-2, rhoend=1e-3, maxfun=int(rng.integers(120, 260)), bounds=["none", "both"][(j // 6) % 2]))
    tcov, _ = sc.trace_part("C07", insts, V, os.path.join(wd, "traces"))
    # a hang observed in a whole-solver corpus (liveness of the real code) is also a C07 matter: covered by the trace checks' `terminates` clause
    cov = dict(states=r["distinct"] + mcov["states"], transitions=r["generated"] + mcov["transitions"], model_runs=mcov["model_runs"],
               solver_traces=dict(n=tcov["traces_validated_against_impl"], outcomes=tcov["outcomes"], events=tcov["events"]),
               traces_validated_against_impl=len(outs) + tcov["traces_validated_against_impl"], evaluations=len(outs),
               distinct_nontrivial=len(set((o["state"]["kind"], json.dumps(o["state"]["st"], sort_keys=True)) for o in outs)), outcomes=outcomes,
               exhaustive=(tier == "thorough"),
               rule="one call of dfols.solve per state of DfolsApi.tla (argument-class combinations in the code's validation order, 71 keys x value classes, "
                    "unknown key); quick tier: all key states, all argument states with <= 2 invalid classes and a quarter of the rest",
               samples=[dict(state=o["state"], observed={k: o.get(k) for k in ("outcome", "flag", "nf", "calls", "msg")}) for o in outs[:3]])
    return V.finish(cov, "model_checking", ["the specification's key table was transcribed once from params.py and docs/advanced.rst; None values are outside the table (read form of the accessor)",
                                            "in-range value per key: midpoint of the documented range, or bound +/- 1"])
