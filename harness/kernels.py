"""Concretiser and contract classes for the step kernels (C12, C13).  Each class is computed here, next to its inequality:

 trsbox(xopt, g, H, sl, su, delta) -> d, gnew, crvmin                                        [C12]
   box_exact               sl - xopt <= d <= su - xopt componentwise, exact comparisons (the box in the step's own coordinates)
   norm_le_delta           ||d|| <= delta * (1 + 1e-8)
   model_not_increased     q(d) = g.d + d'Hd/2 <= 1e-12 * (|g|.|d| + |d|'|H||d|/2)          (rounding of q's own evaluation)
   beats_truncated_cauchy  q(d) <= q(steepest-descent step from xopt over the coordinates not fixed at the start, truncated at the
                           first bound, the trust-region boundary or the 1-d minimiser) + 1e-9 * (|g|.|d_c| + |d_c|'|H||d_c|/2 + |q_c|)
   gnew_is_g_plus_Hd       |gnew - (g + H d)| <= 1e-8 * (|g| + |H||d|) componentwise-normwise
   every clause additionally allows for the rounding of the representation d = (xopt + d) - xopt, i.e. an absolute error 4*eps*|xopt_i| per
   component of d, propagated through the clause's own expression (nothing else)
 trsbox_geometry(xbase, c, g, lower, upper, Delta) -> x                                       [C13]
   box_1e-12               lower - t <= x <= upper + t,  t = 1e-12 * max(1, |x|_inf, Delta)
   norm_le_delta           ||x - xbase|| <= Delta * (1 + 1e-8)
   global_max_1e-6         |c + g.(x - xbase)| >= (1 - 1e-6) * max over the box-ball region (bisection on the clipped ray, both signs)
   not_worse_than_zero     |c + g.(x - xbase)| >= |c| * (1 - 1e-12)
 ctrsbox_pgd / ctrsbox_sfista / ctrsbox_geometry -> step                                       [C13]
   norm_le_delta           ||d|| <= Delta * (1 + 1e-8)
 Explored domain (narrower than the quantifier, stated in the evidence file): |xopt| <= 100*delta (as base shifts guarantee inside the
 solver; beyond it the subtraction (xopt + d) - xopt alone rounds by more than 1e-8*delta); gradient components are 0 or >= 1e-10 in size.
"""
import math
import warnings

import numpy as np

from . import vlib, problems

BIGB = 1e20


def q_of(g, H, d):
    return float(g @ d + 0.5 * d @ (H @ d))


def make_H(rng, n, kind, scale):
    if kind == "zero":
        return np.zeros((n, n))
    if kind == "psd_lowrank":
        m = max(1, n - 1) if n > 1 else 1
        J = rng.normal(size=(m, n))
        H = 2.0 * J.T @ J
        if n == 1:
            H = np.zeros((1, 1))
    elif kind == "psd_full":
        J = rng.normal(size=(n + 1, n))
        H = 2.0 * J.T @ J
    elif kind == "indefinite":
        A = rng.normal(size=(n, n))
        H = A + A.T
    else:  # badscale
        J = rng.normal(size=(n + 1, n))
        D = np.diag(10.0 ** rng.uniform(-3, 3, size=n))
        H = D @ (2.0 * J.T @ J) @ D
    nh = np.linalg.norm(H, 2)
    return H * (scale / nh) if nh > 0 else H


def box_for(rng, x, pos, delta):
    n = len(x)
    lo, hi = np.zeros(n), np.zeros(n)
    for i, p in enumerate(pos):
        wl, wu = delta * rng.uniform(0.2, 2.5), delta * rng.uniform(0.2, 2.5)
        if p == "atL":
            lo[i], hi[i] = x[i], x[i] + wu
        elif p == "nearL":
            lo[i], hi[i] = x[i] - 1e-14 * delta, x[i] + wu
            if not lo[i] <= x[i]:
                lo[i] = x[i]
        elif p == "atU":
            lo[i], hi[i] = x[i] - wl, x[i]
        elif p == "nearU":
            lo[i], hi[i] = x[i] - wl, x[i] + 1e-14 * delta
            if not hi[i] >= x[i]:
                hi[i] = x[i]
        elif p == "free":
            lo[i], hi[i] = -BIGB, BIGB
        else:
            lo[i], hi[i] = x[i] - wl, x[i] + wu
    return lo, hi


def grad_for(rng, sgn, gscale):
    g = np.zeros(len(sgn))
    for i, s in enumerate(sgn):
        if s == "neg":
            g[i] = -gscale * rng.uniform(0.3, 2.0)
        elif s == "pos":
            g[i] = gscale * rng.uniform(0.3, 2.0)
    return g


def cauchy_value(xopt, g, H, sl, su, delta):
    """q at the steepest-descent step truncated at the first bound / trust-region boundary / 1-d minimiser"""
    s = -g.copy()
    s[(xopt <= sl) & (g >= 0.0)] = 0.0
    s[(xopt >= su) & (g <= 0.0)] = 0.0
    ns = float(np.linalg.norm(s))
    if ns == 0.0:
        return 0.0, np.zeros_like(g)
    t = delta / ns
    for i in range(len(s)):
        if s[i] > 0:
            t = min(t, (su[i] - xopt[i]) / s[i])
        elif s[i] < 0:
            t = min(t, (sl[i] - xopt[i]) / s[i])
    shs = float(s @ (H @ s))
    if shs > 0:
        t = min(t, float(-(g @ s)) / shs)
    t = max(t, 0.0)
    d = t * s
    return q_of(g, H, d), d


def trsbox_call(st, rng):
    """one concretised call of the real trsbox; returns the Kernel event"""
    from dfols.trust_region import trsbox
    n = st["n"]
    delta = 10.0 ** rng.uniform(-4, 4)
    gscale = 10.0 ** rng.uniform(-3, 3)
    xopt = rng.normal(size=n) * delta * float(rng.choice([0.0, 1.0, 10.0, 100.0]))
    sl, su = box_for(rng, xopt, st["pos"], delta)
    g = grad_for(rng, st["sgn"], gscale)
    H = make_H(rng, n, st["hk"], (gscale / delta) * 10.0 ** rng.uniform(-2, 2))
    coin = st.get("coin", "none")
    if coin != "none":
        xopt, g, H, sl, su, delta = coincidence(rng, st, coin, xopt, g, H, sl, su, delta)
    with warnings.catch_warnings(), np.errstate(all="ignore"):
        warnings.simplefilter("ignore")
        d, gnew, crvmin = trsbox(xopt.copy(), g.copy(), H.copy(), sl.copy(), su.copy(), delta, use_fortran=False)
    return trsbox_classes("trsbox", xopt, g, H, sl, su, delta, d, gnew), dict(delta=delta, gscale=gscale)


def coincidence(rng, st, coin, xopt, g, H, sl, su, delta):
    """re-shape a concretised trsbox input so that it lies in the measure-zero class `coin` of Kernels.tla (the class pattern is kept)"""
    n = st["n"]
    mov = [i for i in range(n) if st["pos"][i] == "in" and st["sgn"][i] != "zero"]
    fixed = (xopt <= sl) & (g >= 0.0) | (xopt >= su) & (g <= 0.0)
    # dyadic data, so that room / gradient ratios are exact: delta a power of two, xopt and the rooms multiples of delta/16
    delta = 2.0 ** round(math.log2(delta))
    x = np.round(xopt / delta * 16.0) / 16.0 * delta
    sl, su = sl + (x - xopt), su + (x - xopt)        # shift the box with the point (at/near classes keep their meaning up to rounding)
    for i in range(n):
        if st["pos"][i] == "atL":
            sl[i] = x[i]
        elif st["pos"][i] == "atU":
            su[i] = x[i]
    xopt = x
    s = -g.copy()
    s[fixed] = 0.0
    if coin == "tied_bounds":
        k = int(rng.integers(2, len(mov) + 1))
        tied = [int(i) for i in rng.choice(mov, size=k, replace=False)]
        G = float(np.max(np.abs(g[tied])))
        room = delta * float(rng.integers(2, 13)) / 16.0
        for i in tied:
            g[i] = math.copysign(G, g[i])
            if g[i] < 0:
                su[i] = xopt[i] + room
            else:
                sl[i] = xopt[i] - room
        # the other movable coordinates reach their bounds later; the sphere lies beyond the corner
        t = room / G
        for i in mov:
            if i not in tied:
                if g[i] < 0:
                    su[i] = max(su[i], xopt[i] + 3.0 * t * abs(g[i]))
                else:
                    sl[i] = min(sl[i], xopt[i] - 3.0 * t * abs(g[i]))
        s = -g.copy()
        s[fixed] = 0.0
        delta = float(np.linalg.norm(t * s)) * float(rng.uniform(1.2, 3.0))
    elif coin == "bound_at_delta":
        # zero Hessian, every other bound out of reach: the step is delta * s/|s|; the bound of coordinate i0 lies exactly at that step's i0-th component.
        # Data with few decimal digits (whether the product rounds outside depends on them)
        i0 = int(rng.choice(mov))
        H = np.zeros_like(H)
        delta = round(float(rng.uniform(0.1, 9.9)), 2)
        for i in range(n):
            if g[i] != 0.0:
                g[i] = math.copysign(round(float(rng.uniform(0.1, 5.0)), 2), g[i])
        s = -g.copy()
        s[fixed] = 0.0
        if rng.random() < 0.7:
            sl, su, xopt = sl - xopt, su - xopt, np.zeros(n)      # (the box moves with the point: at / near classes keep their meaning)
        for i in range(n):
            if st["pos"][i] in ("in", "free"):
                sl[i], su[i] = xopt[i] - 100.0 * delta, xopt[i] + 100.0 * delta
            elif st["pos"][i] in ("atL", "nearL"):
                su[i] = xopt[i] + 100.0 * delta
            elif st["pos"][i] in ("atU", "nearU"):
                sl[i] = xopt[i] - 100.0 * delta
        comp = delta * abs(s[i0]) / float(np.linalg.norm(s))
        if s[i0] > 0:
            su[i0] = xopt[i0] + comp
        else:
            sl[i0] = xopt[i0] - comp
        return xopt, g, H, sl, su, delta
    elif coin == "late_bound_then_arc":
        # every variable live; i0 carries 75-97% of the gradient and has its bound 0.1 .. 0.95 delta away in its descent direction; H = J'J with one dominant row
        i0 = int(rng.choice(mov))
        w = float(rng.uniform(0.75, 0.97))
        gs = float(np.linalg.norm(g))
        rest = np.array([j for j in range(n) if j != i0])
        g[rest] = g[rest] / float(np.linalg.norm(g[rest])) * math.sqrt(1.0 - w * w) * gs
        g[i0] = math.copysign(w * gs, g[i0])
        J = rng.normal(size=(n - 1, n))
        J[1:] *= float(rng.choice([0.05, 0.15, 0.3]))
        H = J.T @ J
        H = H * (float(rng.uniform(0.5, 8.0)) * gs / delta / float(np.linalg.norm(H, 2)))
        for i in range(n):
            sl[i], su[i] = min(sl[i], xopt[i] - 3.0 * delta), max(su[i], xopt[i] + 3.0 * delta)
        room = delta * float(rng.uniform(0.1, 0.95))
        if g[i0] < 0:
            su[i0] = xopt[i0] + room
        else:
            sl[i0] = xopt[i0] - room
        return xopt, g, H, sl, su, delta
    elif coin == "bound_then_arc":
        # the first steepest-descent step meets the bound of i0 at about a third of the way to the sphere; strongly coupled curvature of the size of
        # |g|/delta (indefinite or rank deficient, so that the remaining variables run on to the sphere)
        i0 = int(rng.choice(mov))
        s = -g.copy()
        s[fixed] = 0.0
        room = delta * float(rng.uniform(0.15, 0.5)) * abs(s[i0]) / float(np.linalg.norm(s))
        if g[i0] < 0:
            su[i0] = xopt[i0] + room
        else:
            sl[i0] = xopt[i0] - room
        for i in range(n):
            if i != i0 and st["pos"][i] == "in":
                sl[i], su[i] = min(sl[i], xopt[i] - 3.0 * delta), max(su[i], xopt[i] + 3.0 * delta)
        nh = float(np.linalg.norm(H, 2))
        if nh > 0:
            H = H * (float(rng.uniform(1.0, 8.0)) * float(np.linalg.norm(g)) / delta / nh)
        t = room / abs(s[i0])
        shs = float(s @ (H @ s))
        if shs > 0.0 and float(s @ s) / shs < 1.25 * t:
            H = H * (float(s @ s) / shs) / (2.0 * t)        # the bound, not the 1-d minimiser, ends the first step
        return xopt, g, H, sl, su, delta
    else:  # bound_on_sphere
        i0 = int(rng.choice(mov))
        if rng.random() < 0.5 and n >= 2:
            g[i0] *= float(rng.uniform(3.0, 12.0))          # the bounded coordinate carries most of the gradient (its loss can reverse the rest)
        s = -g.copy()
        s[fixed] = 0.0
        room = delta * float(rng.integers(2, 13)) / 16.0
        if g[i0] < 0:
            su[i0] = xopt[i0] + room
        else:
            sl[i0] = xopt[i0] - room
        t = room / abs(g[i0])
        for i in mov:
            if i != i0:
                if g[i] < 0:
                    su[i] = max(su[i], xopt[i] + 3.0 * t * abs(g[i]) + delta)
                else:
                    sl[i] = min(sl[i], xopt[i] - 3.0 * t * abs(g[i]) - delta)
        d1 = t * s
        d1[i0] = math.copysign(room, s[i0])
        delta = float(np.linalg.norm(d1))
        for _ in range(int(rng.integers(0, 41))):
            delta = float(np.nextafter(delta, np.inf))
    # curvature: the bound (not the one-dimensional minimiser) ends the first step
    shs = float(s @ (H @ s))
    if shs > 0.0:
        tn = float(s @ s) / shs
        want = t * float(rng.uniform(1.2, 6.0))
        H = H * (tn / want)
    return xopt, g, H, sl, su, delta


def trsbox_classes(name, xopt, g, H, sl, su, delta, d, gnew):
    d = np.asarray(d, dtype=float)
    x = xopt + d
    aH = np.abs(H)
    ad = np.abs(d)
    qd = q_of(g, H, d)
    round_q = float(np.abs(g) @ ad + 0.5 * ad @ (aH @ ad))
    qc, dc = cauchy_value(xopt, g, H, sl, su, delta)
    adc = np.abs(dc)
    slack_c = 1e-9 * (float(np.abs(g) @ adc + 0.5 * adc @ (aH @ adc)) + abs(qc)) + 1e-12 * round_q
    want = g + H @ d
    # the step is returned as (xopt + d) - xopt: each component of d carries an absolute rounding error of up to ~eps*|xopt_i|
    # ("rounding of the base-point arithmetic"); the clauses allow exactly for the effect of that error, never more
    dx = 4.0 * np.finfo(float).eps * np.abs(xopt)
    rd = float((np.abs(g) + aH @ ad) @ dx)
    # box, exactly, in the step's own coordinates: sl - xopt <= d <= su - xopt (binary64 subtraction is monotone, so a step formed as
    # xnew - xopt with sl <= xnew <= su satisfies this without any tolerance, whereas fl(xopt + d) need not be inside [sl, su])
    cl = [["box_exact", "C12", bool(np.all(d >= sl - xopt) and np.all(d <= su - xopt))],
          ["norm_le_delta", "C12", bool(np.linalg.norm(d) <= delta * (1 + 1e-8) + float(np.linalg.norm(dx)))],
          ["model_not_increased", "C12", bool(qd <= 1e-12 * round_q + rd)],
          ["beats_truncated_cauchy", "C12", bool(qd <= qc + slack_c + rd)],
          ["gnew_is_g_plus_Hd", "C12", bool(np.linalg.norm(np.asarray(gnew) - want) <= 1e-8 * (np.linalg.norm(g) + float(np.linalg.norm(aH @ ad)))
                                             + float(np.linalg.norm(aH @ dx)) + 1e-300)]]
    return dict(ev="Kernel", name=name, cl=cl)


def geom_oracle(c, g, a, b, Delta):
    """max of |c + g.s| over a <= s <= b, ||s|| <= Delta, by bisection on the clipped ray s(t) = clip(t*v, a, b), v = +-g"""
    best = abs(c)
    for sign in (1.0, -1.0):
        v = sign * g
        if not np.any(v != 0):
            continue

        def s_of(t):
            return np.minimum(np.maximum(t * v, a), b)
        lo_t, hi_t = 0.0, 1.0
        while np.linalg.norm(s_of(hi_t)) < Delta and hi_t < 1e300:
            if np.array_equal(s_of(hi_t), s_of(hi_t * 2)) and np.array_equal(s_of(hi_t * 2), s_of(hi_t * 1e6)):
                break
            hi_t *= 2
        if np.linalg.norm(s_of(hi_t)) <= Delta:
            s = s_of(hi_t)
        else:
            for _ in range(200):
                mid = 0.5 * (lo_t + hi_t)
                if np.linalg.norm(s_of(mid)) <= Delta:
                    lo_t = mid
                else:
                    hi_t = mid
            s = s_of(lo_t)
        best = max(best, abs(c + float(g @ s)))
    return best


def geom_call(st, rng):
    from dfols.trust_region import trsbox_geometry
    n = st["n"]
    Delta = 10.0 ** rng.uniform(-3, 2)
    xbase = rng.normal(size=n) * Delta * float(rng.choice([0.0, 1.0, 10.0]))
    lower, upper = box_for(rng, xbase, st["pos"], Delta)
    g = grad_for(rng, st["sgn"], 10.0 ** rng.uniform(-2, 2) / Delta)
    c = float(rng.choice([0.0, 1.0, -1.0, rng.normal()]))
    if rng.random() < 0.3:
        # tiny but non-negligible gradients (components >= 1e-10, far above the code's 1e-14 zero threshold) with a constant term of the same size
        g = grad_for(rng, st["sgn"], 10.0 ** rng.uniform(-9.0, -6.5))
        c = float(rng.choice([0.0, 1.0, -1.0])) * float(np.linalg.norm(g)) * Delta * float(rng.choice([0.0, 0.5, 2.0]))
    at_threshold = rng.random() < 0.12
    if at_threshold:
        # gradient entries AT the code's zero threshold (1e-14): some or all of them are treated as zero.  Nothing is claimed about optimality there
        # (the maximum itself is of the size of the threshold); the step must still be a finite point of the box and the ball, not worse than no step
        g = np.array([(0.0 if s_ == "zero" else (1.0 if s_ == "pos" else -1.0)) * float(rng.uniform(4e-15, 2.5e-14)) for s_ in st["sgn"]])
        if rng.random() < 0.5:
            g = np.sign(g) * float(rng.uniform(7.2e-15, 9.9e-15))        # every entry below the threshold, the norm (for n >= 2) above it
    with warnings.catch_warnings(), np.errstate(all="ignore"):
        warnings.simplefilter("ignore")
        x = trsbox_geometry(xbase.copy(), c, g.copy(), lower.copy(), upper.copy(), Delta, use_fortran=False)
    x = np.asarray(x, dtype=float)
    s = x - xbase
    t = 1e-12 * max(1.0, float(np.max(np.abs(x))), Delta)
    val = abs(c + float(g @ s))
    # the code treats box sides closer than 1e-14 as 1e-14 away (ZERO_THRESH) - the region the oracle maximises over is the same
    a = np.minimum(lower - xbase, -1e-14)
    b = np.maximum(upper - xbase, 1e-14)
    best = geom_oracle(c, g, a, b, Delta)
    cl = [["box_1e-12", "C13", bool(np.all(x >= lower - t) and np.all(x <= upper + t))],
          ["norm_le_delta", "C13", bool(np.linalg.norm(s) <= Delta * (1 + 1e-8))],
          ["global_max_1e-6", "C13", bool(at_threshold or val >= (1 - 1e-6) * best - 1e-300)],
          ["not_worse_than_zero", "C13", bool(val >= abs(c) * (1 - 1e-12))],
          ["finite", "C13", bool(np.all(np.isfinite(x)))]]
    return dict(ev="Kernel", name="trsbox_geometry", cl=cl), dict(Delta=Delta)


def active_sets(rng, kinds, xopt, Delta, rel):
    """convex sets containing xopt whose boundaries pass within the trust region; returns the projections and one outward normal per set"""
    n = len(xopt)
    projs, normals = [], []
    for k in kinds:
        if k == "half":
            a = normals[0] + 0.05 * rng.normal(size=n) if (rel == "near_parallel" and normals) else rng.normal(size=n)
            a = a / np.linalg.norm(a)
            normals.append(a)
            beta = float(a @ xopt) + rng.uniform(0.05, 0.6) * Delta
            projs.append(lambda x, a=a, beta=beta: x - max(0.0, float(a @ x) - beta) * a)
        elif k == "ball":
            u = rng.normal(size=n)
            u = u / np.linalg.norm(u)
            normals.append(u)
            rad = rng.uniform(1.0, 3.0) * Delta
            ctr = xopt - u * (rad - rng.uniform(0.05, 0.6) * Delta)
            projs.append(lambda x, ctr=ctr, rad=rad: ctr + (rad / max(np.linalg.norm(x - ctr), rad)) * (x - ctr))
        else:
            lo = xopt - rng.uniform(0.05, 0.6, size=n) * Delta
            hi = xopt + rng.uniform(0.05, 0.6, size=n) * Delta
            normals.append(np.where(rng.random(n) < 0.5, -1.0, 1.0) / math.sqrt(n))
            projs.append(lambda x, lo=lo, hi=hi: np.minimum(np.maximum(x, lo), hi))
    return projs, normals


def convex_call(st, rng, seed):
    import dfols.trust_region as T
    n = st["n"]
    Delta = 10.0 ** rng.uniform(-2, 2)
    if st.get("act", "inside") == "active":
        xopt = rng.normal(size=n)
        projs, normals = active_sets(rng, list(st["sets"]), xopt, Delta, st.get("rel", "generic"))
        dirn = sum(normals) + 0.3 * rng.normal(size=n)
        g = -(10.0 ** rng.uniform(-2, 2)) * dirn / np.linalg.norm(dirn)      # steepest descent heads for the sets' boundaries
    else:
        c = rng.normal(size=n)
        sets = problems.make_sets(dict(seed=seed, proj=list(st["sets"])), c)
        projs = [s["proj"] for s in sets]
        off = rng.normal(size=n)
        off *= rng.uniform(0, 0.2) / np.linalg.norm(off)
        xopt = c + off        # strictly inside every set (all sets contain a ball of radius >= 0.3 around c)
        g = grad_for(rng, st["sgn"], 10.0 ** rng.uniform(-2, 2))
    H = make_H(rng, n, st["hk"], 10.0 ** rng.uniform(-2, 1) * float(np.linalg.norm(g)) / Delta)
    if st.get("act") == "just_outside":
        # isotropic model whose unconstrained minimiser (resp. a linear model whose gradient) points a relative 1e-7 .. 1e-5 beyond the trust-region
        # sphere, every set inactive: the last projection onto the ball has to pull the point back by that little
        u = rng.normal(size=n)
        u /= np.linalg.norm(u)
        eps_out = 10.0 ** rng.uniform(-7.0, -5.0)
        kappa = 10.0 ** rng.uniform(-1, 1)
        H = kappa * np.eye(n)
        g = -kappa * (1.0 + eps_out) * Delta * u
        if st["kernel"] == "ctrsbox_geometry":
            g = (1.0 + eps_out) * Delta * u
        if float(np.linalg.norm(xopt - c)) + 1.2 * Delta > 0.3:
            Delta_ok = False
        else:
            Delta_ok = True
        if not Delta_ok:
            # keep every set inactive: shrink the problem around xopt (all sets contain the ball of radius 0.3 around c)
            sc_ = 0.05 / Delta
            Delta, g = Delta * sc_, g * sc_
            H = H
    with warnings.catch_warnings(), np.errstate(all="ignore"):
        warnings.simplefilter("ignore")
        if st["kernel"] == "ctrsbox_pgd":
            d = T.ctrsbox_pgd(xopt.copy(), g.copy(), H.copy(), projs, Delta)[0]
        elif st["kernel"] == "ctrsbox_geometry":
            d = T.ctrsbox_geometry(xopt.copy(), float(rng.normal()), g.copy(), projs, Delta)
        else:
            lam = 10.0 ** rng.uniform(-2, 0)
            h = lambda x: lam * float(np.sum(np.abs(x)))
            prox = lambda x, u: np.sign(x) * np.maximum(np.abs(x) - lam * u, 0.0)
            d = T.ctrsbox_sfista(xopt.copy(), g.copy(), H.copy(), projs, Delta, h, lam * math.sqrt(n), prox, func_tol=1e-2 * Delta, max_iters=200)[0]
    d = np.asarray(d, dtype=float)
    cl = [["norm_le_delta", "C13", bool(np.linalg.norm(d) <= Delta * (1 + 1e-8))],
          ["finite", "C13", bool(np.all(np.isfinite(d)))]]
    return dict(ev="Kernel", name=st["kernel"], cl=cl), dict(Delta=Delta)


def kernel_trace(args):
    """worker: a chunk of Kernels.tla states -> one trace of Kernel events"""
    tid, states, seed, reps = args
    vlib.import_dfols()
    from . import recorder
    ev = []
    for si, st in enumerate(states):
        for rep in range(reps):
            rng = np.random.default_rng([seed, tid, si, rep])
            try:
                if st["kernel"] == "trsbox":
                    e, info = trsbox_call(st, rng)
                elif st["kernel"] == "trsbox_geometry":
                    e, info = geom_call(st, rng)
                else:
                    e, info = convex_call(st, rng, seed + si)
            except AssertionError as ex:
                e, info = dict(ev="Kernel", name=st["kernel"], cl=[["no_assertion", "C12" if st["kernel"] == "trsbox" else "C13", False]]), dict(exc=str(ex))
            e["st"] = si
            e["rep"] = rep
            ev.append(e)
    cfg = dict(maxfun=1, det=False, reg=False, hasproj=False, onesample=True, valid=True, mayraise=False, wantopt=False, ref=0, parallel=False, zero=0.0, r1e10=1e10, rhobeg=1.0,
               rhoenddoc=[1e-8] * 3, maxunsucc=10, resetrho=False, maxnpt=3)
    enc = recorder.encode_events(dict(cfg=cfg, ev=ev))
    return dict(id=tid, cfg=enc["cfg"], ev=enc["ev"], summary=dict(outcome="return", nev=len(ev), counts={"Kernel": len(ev)}), states=states)
