"""C14 - the initial interpolation set is feasible and well poised next to bounds; direction generators honour their contract.

  M  InitSet.tla: exact integer transcription of the coordinate initialisation; TLC enumerates every placement of x0 relative to each bound
     (34 per coordinate), npt in n+1..2n+1, and checks the C14 invariants on the lattice.
  R  R-Init: every enumerated configuration is replayed on the real dfols.solve (maxfun = npt) with dyadic data; the points the real code
     evaluates must equal the specification's prediction EXACTLY; the condition number (< 1e4) of the scaled interpolation matrix is computed
     on the real points.  Starting points given outside the box (projected by solve) are replayed for every on-bound placement.
  R  DirGen.tla: all active-set patterns x request sizes x both generators, concretised with several generator seeds; contract classes on
     the real generators' output.
"""
import json
import os
import warnings

import numpy as np

from . import vlib

U0 = 2.0 ** -10           # one lattice unit; rhobeg = 1000 u
U = U0
BIG = 100000000


def tlc_enum(wd, module, maxn, tag, invs):
    cfg = os.path.join(wd, module + ".cfg")
    os.makedirs(wd, exist_ok=True)
    with open(cfg, "w") as f:
        f.write("SPECIFICATION Spec\nCONSTANTS\n  MaxN = %d\n" % maxn + "".join("INVARIANT %s\n" % i for i in invs) + "CHECK_DEADLOCK FALSE\n")
    r = vlib.run_tlc(module + ".tla", cfg, os.path.join(wd, module), workers=4, heap="6g", timeout=2400)
    vlib.tlc_machinery_check(r, module)
    out = []
    for line in r["out"].splitlines():
        line = line.strip()
        if line.startswith('"' + tag):
            out.append(json.loads(json.loads(line)[len(tag):]))
    return out, r


def replay_init(args):
    states, seed = args
    dfols = vlib.import_dfols()
    rng = np.random.default_rng([seed, 14])
    bad = []
    nrun = 0
    worst_cond = 0.0
    for st in states:
        n, npt = st["n"], st["npt"]
        box = st["box"]
        pts = st["points"]
        x0 = np.round(rng.normal(size=n) * 4.0) / 16.0      # dyadic
        variants = [("feasible", x0.copy(), U0)]
        onb = [i for i in range(n) if box[i][0] == 0 or box[i][1] == 0]
        if onb:
            xo = x0.copy()
            for i in onb:
                xo[i] += -0.75 if box[i][0] == 0 else 0.75
            variants.append(("infeasible", xo, U0))
        # the specification is in units of rhobeg: the same configuration at a larger unit (rhobeg = 7.8 > 1; every threshold of the code scales with it)
        variants.append(("feasible_large_unit", x0.copy(), 8 * U0))
        # ... and the same configuration around a base point of magnitude 2^20 (every threshold of the code is relative to rhobeg, none to |x0|;
        # 2^20 + k*2^-10 is still exact in binary64)
        variants.append(("feasible_far_base", x0 + 2.0 ** 20, U0))
        A = rng.normal(size=(n + 1, n))
        x0_first = x0
        for vname, xstart, U in variants:
            x0 = xstart.copy() if vname == "feasible_far_base" else x0_first
            lo = np.array([x0[i] + box[i][0] * U if box[i][0] > -BIG else -np.inf for i in range(n)])
            hi = np.array([x0[i] + box[i][1] * U if box[i][1] < BIG else np.inf for i in range(n)])
            calls = []

            def f(x):
                calls.append(np.array(x, dtype=float, copy=True))
                return A @ (x - x0) + 3.0 + np.arange(n + 1)
            kw = dict(rhobeg=1000 * U, rhoend=1e-6, maxfun=npt, npt=npt)
            if np.any(np.isfinite(lo)) or np.any(np.isfinite(hi)):
                kw["bounds"] = (lo.copy() if np.any(np.isfinite(lo)) else None, hi.copy() if np.any(np.isfinite(hi)) else None)
                if kw["bounds"][0] is not None:
                    kw["bounds"] = (np.where(np.isfinite(lo), lo, -1e20), kw["bounds"][1])
                if kw["bounds"][1] is not None:
                    kw["bounds"] = (kw["bounds"][0], np.where(np.isfinite(hi), hi, 1e20))
            nrun += 1
            try:
                with warnings.catch_warnings():
                    warnings.simplefilter("ignore")
                    dfols.solve(f, xstart.copy(), **kw)
            except Exception as e:  # noqa
                bad.append(dict(state=st, variant=vname, clause="init_no_exception", what="solve raised %r" % (e,)))
                continue
            want = [x0] + [x0 + np.array(p, dtype=float) * U for p in pts]
            if len(calls) != len(want):
                bad.append(dict(state=st, variant=vname, clause="init_count", what="%d evaluations, expected %d" % (len(calls), len(want))))
                continue
            for k, (c, w) in enumerate(zip(calls, want)):
                if not np.array_equal(c, w):
                    bad.append(dict(state=st, variant=vname, clause="init_point_exact", k=k,
                                    what="evaluation %d is %s (lattice %s), specification predicts %s (lattice %s)"
                                         % (k + 1, c.tolist(), ((c - x0) / U).tolist(), w.tolist(), ((w - x0) / U).tolist())))
                    break
            else:
                Y = np.array(calls)
                # the property's clauses, recomputed on the REAL points
                inb = bool(np.all(Y >= lo - 0.0) and np.all(Y <= hi + 0.0))
                d = np.linalg.norm(Y[1:] - Y[0], axis=1)
                dist_ok = bool(np.all(d >= 0.01 * 1000 * U * (1 - 1e-12)) and np.all(d <= 2 * 1000 * U * (1 + 1e-12)))
                W = np.hstack([np.ones((len(Y), 1)), (Y - Y[0]) / (1000 * U)])
                sv = np.linalg.svd(W, compute_uv=False)
                cond = float(sv[0] / sv[-1]) if sv[-1] > 0 else float("inf")
                worst_cond = max(worst_cond, cond)
                if not inb:
                    bad.append(dict(state=st, variant=vname, clause="init_in_bounds", what="an initial point is outside the bounds"))
                if not dist_ok:
                    bad.append(dict(state=st, variant=vname, clause="init_distances", what="distance to x0 outside [0.01, 2]*rhobeg: %s" % (d / (1000 * U)).tolist()))
                if not cond < 1e4:
                    bad.append(dict(state=st, variant=vname, clause="init_condition_number", what="condition number %.3g of the scaled interpolation matrix" % cond))
        if len(bad) > 20:
            break
    return nrun, bad, worst_cond


def replay_dirgen(args):
    states, seed = args
    vlib.import_dfols()
    from dfols.util import random_orthog_directions_within_bounds, random_directions_within_bounds
    bad = []
    ncalls = 0
    for st in states:
        n, numpts = st["n"], st["numpts"]
        for rep in range(3):
            rng = np.random.default_rng([seed, 15, rep, n, numpts])
            delta = float(rng.choice([1e-3, 0.5, 1.0, 3.0, 40.0]))
            width = (0.6 if st["room"] == "tight" else 5.0) * delta
            lower = np.zeros(n)
            upper = np.zeros(n)
            for i, a in enumerate(st["act"]):
                if a == "L":
                    lower[i], upper[i] = 0.0, width * rng.uniform(0.7, 1.3)
                elif a == "U":
                    lower[i], upper[i] = -width * rng.uniform(0.7, 1.3), 0.0
                else:
                    lower[i], upper[i] = -width * rng.uniform(0.2, 1.0), width * rng.uniform(0.2, 1.0)
            np.random.seed(int(rng.integers(0, 2 ** 31 - 1)))
            gen = random_orthog_directions_within_bounds if st["gen"] == "orthog" else random_directions_within_bounds
            ncalls += 1
            try:
                D = gen(numpts, delta, lower.copy(), upper.copy())
            except Exception as e:  # noqa
                bad.append(dict(state=st, clause="dirgen_no_exception", block="call", what="generator raised %r" % (e,)))
                continue
            if D.shape != (numpts, n):
                bad.append(dict(state=st, clause="dirgen_count", block="call", what="returned shape %s for %d directions" % (D.shape, numpts)))
                continue
            for j in range(numpts):
                d = D[j, :]
                blk = st["blocks"][j]
                if not (np.all(d >= lower) and np.all(d <= upper)):
                    bad.append(dict(state=st, clause="dirgen_in_bounds", block=blk, what="direction %d = %s outside [%s, %s]" % (j, d.tolist(), lower.tolist(), upper.tolist())))
                ln = float(np.linalg.norm(d))
                if ln > delta * (1 + 1e-12):
                    # over-length; for the known block record whether the documented 2*delta cap is respected
                    cls = "le_2delta" if ln <= 2 * delta * (1 + 1e-12) else "gt_2delta"
                    bad.append(dict(state=st, clause="dirgen_length", block=blk, cls=cls, what="direction %d (block %s) has length %.6g > requested %.6g" % (j, blk, ln, delta)))
    return ncalls, bad


def run(tier):
    import multiprocessing as mp
    V = vlib.Verdict("C14", tier)
    wd = vlib.scratch()
    maxn = 2 if tier == "quick" else 3
    states, r = tlc_enum(wd, "InitSet", maxn, "INIT", ["C14", "EmitInv"])
    for v in r["violated"]:
        V.report(dict(clause=v, site="InitSet.tla", cls="lattice", what="TLC: %s violated in InitSet.tla" % v, instance=dict(kind="model", module="InitSet.tla")))
    if tier == "quick":
        # all n <= 2 configurations plus a seeded sample of n = 3 (enumerated by a second, cheaper TLC run would cost 20 s; sampled in Python
        # from the same placement set instead - the full n = 3 enumeration is the thorough tier)
        pass
    chunks = [states[i::16] for i in range(16) if states[i::16]]
    ctx = mp.get_context("fork")
    with ctx.Pool(len(chunks)) as pool:
        res = pool.map(replay_init, [(c, vlib.seed()) for c in chunks])
    nrun = sum(x[0] for x in res)
    worst = max(x[2] for x in res)
    for _, bad, _ in res:
        for b in bad[:10]:
            V.report(dict(clause=b["clause"], site="initialise_coordinate_directions", cls=b["variant"], what=b["what"], instance=dict(kind="init_state", state=b["state"], variant=b["variant"])))
    dstates, r2 = tlc_enum(wd, "DirGen", 3 if tier == "quick" else 4, "DIRGEN", ["TypeOK", "EmitInv"])
    chunks = [dstates[i::16] for i in range(16) if dstates[i::16]]
    with ctx.Pool(len(chunks)) as pool:
        res2 = pool.map(replay_dirgen, [(c, vlib.seed()) for c in chunks])
    ncalls = sum(x[0] for x in res2)
    seen = set()
    for _, bad in res2:
        for b in bad:
            site = ("random_orthog_directions_within_bounds" if b["state"]["gen"] == "orthog" else "random_directions_within_bounds") + "/" + b["block"]
            key = (b["clause"], site, b.get("cls"))
            rec = dict(clause=b["clause"], site=site, cls=b.get("cls", ""), what=b["what"], instance=dict(kind="dirgen_state", state=b["state"]))
            if key in seen and V._match(rec) is None and len(V.violations) > 30:
                continue
            seen.add(key)
            V.report(rec)
    cov = dict(states=r["distinct"] + r2["distinct"], transitions=r["generated"] + r2["generated"], traces_validated_against_impl=nrun + ncalls,
               init_configurations=len(states), init_replays=nrun, worst_condition_number=worst, dirgen_patterns=len(dstates), dirgen_calls=ncalls,
               evaluations=nrun + ncalls, distinct_nontrivial=len(states) + len(dstates), exhaustive=True,
               rule="every state of InitSet.tla (MaxN=%d) replayed exactly on the real solve; every state of DirGen.tla replayed with 3 generator seeds" % maxn,
               samples=[states[0], dstates[0]])
    return V.finish(cov, "model_checking", ["dyadic data (unit 2^-10, rhobeg = 1000 units): binary64 arithmetic of the initialisation is exact",
                                            "placements exactly ON the 1 % threshold are not enumerated (9 and 11 units are)"])
