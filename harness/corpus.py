"""R-Config: configuration classes for whole-solver corpora (DESIGN.md 4.2).

The class list of every corpus is fixed; VERIF_SEED only changes the concretisation inside each class (matrix entries,
which coordinate sits on which bound, ...).  Every instance lies inside the documented/supported option space:
  - projections only with npt = n+1 and a full initial set (documented limitation otherwise),
  - regulariser never together with scaling_within_bounds (documented limitation),
  - restarts.max_npt <= (n+1)(n+2)/2.
"""
import itertools
import numpy as np

PLACES_BOTH = ["in", "L", "U", "L+", "U-", "nearL", "nearL2", "nearU", "nearU2", "belowL", "aboveU"]


def _pick(rng, xs):
    return xs[int(rng.integers(0, len(xs)))]


def base(rng, iid, **over):
    n = int(over.pop("n", _pick(rng, [1, 2, 2, 3, 3, 4])))
    m = int(over.pop("m", max(1, n + int(rng.integers(-1, 3)))))
    inst = dict(id=iid, seed=int(rng.integers(0, 2 ** 31 - 1)), n=n, m=m, prob="nl", maxfun=60, rhoend=1e-4)
    inst.update(over)
    if inst["prob"] in ("ros", "ros3"):
        inst["n"], inst["m"] = 2, 2
    return inst


def with_bounds(rng, inst, kinds=("both", "lower", "upper")):
    inst["bounds"] = _pick(rng, list(kinds))
    n = inst["n"]
    inst["x0place"] = [_pick(rng, PLACES_BOTH) for _ in range(n)]
    inst["mag"] = _pick(rng, [1.0, 1.0, 1e3, 1e6])
    if inst["bounds"] == "both" and rng.random() < 0.4 and inst.get("reg", "none") == "none" and not inst.get("proj"):
        inst["scaling"] = True
    return inst


def with_restarts(rng, inst, kinds=("soft", "hard", "hardnew")):
    inst["restarts"] = _pick(rng, list(kinds))
    inst["maxunsucc"] = _pick(rng, [0, 1, 2, 3])
    inst["rhoend_scale"] = _pick(rng, [1.0, 0.5, 0.1])
    n = inst["n"]
    if rng.random() < 0.35 and n >= 2 and not inst.get("proj") and not inst.get("growing"):
        npt = {"n+1": n + 1, "2n+1": 2 * n + 1, "mid": n + 1 + max(1, n // 2), "n+2": n + 2, "full": (n + 1) * (n + 2) // 2}.get(inst.get("npt", "n+1"), n + 1)
        room = (n + 1) * (n + 2) // 2 - npt
        if room >= 1:
            inst["incnpt"] = int(min(room, _pick(rng, [1, 2])))
    return inst


def general(rng, iid, allow=("bounds", "restarts", "avg", "npt", "growing", "regress", "noiseflag", "diag", "small", "underdet")):
    """One instance from the general solver option space."""
    allow = set(allow)
    inst = base(rng, iid, prob=_pick(rng, ["nl", "nl", "lin", "ros3", "zres"]))
    n = inst["n"]
    if "underdet" not in allow and inst["m"] < n:
        inst["m"] = n
    if "npt" in allow and rng.random() < 0.4 and n >= 2:
        inst["npt"] = _pick(rng, ["mid", "2n+1", "n+2"])
    if "bounds" in allow and rng.random() < 0.55:
        with_bounds(rng, inst)
    if "restarts" in allow and rng.random() < 0.5:
        with_restarts(rng, inst)
    if "avg" in allow and rng.random() < 0.3:
        inst["nsamples"] = _pick(rng, ["2", "3", "alt3", "zero", "runs"])
    if "growing" in allow and rng.random() < 0.2 and n >= 2 and not inst.get("npt") and not inst.get("incnpt"):
        # reduced initial sets only with npt = n+1 (with more points the direction generators divide by zero: known finding F-22)
        inst["growing"] = int(rng.integers(1, n + 1))
    up = {}
    if "regress" in allow and inst.get("npt") and rng.random() < 0.5:
        up["regression.num_extra_steps"] = int(_pick(rng, [1, 2]))
        if rng.random() < 0.5:
            up["regression.momentum_extra_steps"] = True
    if "small" in allow and rng.random() < 0.25:
        inst["abs_tol"] = float(_pick(rng, [1e-2, 1e-1, 1.0, 10.0]))
    if "small" in allow and rng.random() < 0.15:
        inst["rel_tol"] = float(_pick(rng, [1e-3, 1e-1, 0.5]))
    if "noiseflag" in allow and rng.random() < 0.1:
        inst["noise"] = True
        inst["noise_sd"] = 1e-3
        inst.setdefault("restarts", "soft")
    if "diag" in allow and rng.random() < 0.3:
        inst["diag"] = True
    if up:
        inst["user_params"] = up
    inst["rhoend"] = float(_pick(rng, [1e-2, 1e-3, 1e-4, 1e-6]))
    inst["maxfun"] = int(_pick(rng, [int(rng.integers(1, 12)), int(rng.integers(12, 50)), int(rng.integers(50, 120))]))
    return inst


def budget_sweep(rng, iid0, basecfg, nref, step=1):
    """one instance per budget 1..nref: the budget expires at every possible point of the run"""
    out = []
    for k in range(1, nref + 1, step):
        d = dict(basecfg)
        d["id"] = iid0 + len(out)
        d["maxfun"] = k
        out.append(d)
    return out


def fault_sweep(iid0, basecfg, nref, kinds=("nan", "nan1", "pinf", "ninf", "huge", "raise", "raise_linalg", "raise_value", "raise_zerodiv", "raise_overflow",
                                             "raise_fpe", "raise_type", "raise_index", "raise_key"), step=1):
    out = []
    for kind in kinds:
        # exception types the library itself catches around some of its own calls: every position (only a few evaluations sit inside such a block)
        st = 1 if kind in ("raise_linalg", "raise_value") else step
        pos = list(range(1, nref + 1, st)) + [-1]
        if kind in ("raise_fpe", "raise_type", "raise_index", "raise_key"):
            pos = sorted(set([1, 2, max(1, nref // 2), nref]))      # types the library catches nowhere today: a few positions
        for k in pos:
            d = dict(basecfg)
            d["id"] = iid0 + len(out)
            d["fault"] = dict(k=k, kind=kind)
            out.append(d)
    return out


def proj_inst(rng, iid):
    n = int(_pick(rng, [2, 2, 3]))
    inst = base(rng, iid, n=n, m=n + int(rng.integers(0, 3)), prob=_pick(rng, ["nl", "lin"]))
    k = int(rng.integers(1, 4))
    inst["proj"] = [_pick(rng, ["ball", "half", "box"]) for _ in range(k)]
    inst["x0feas"] = _pick(rng, ["in", "far", "slight"])
    if rng.random() < 0.5:
        inst["bounds"] = "both"
        inst["bscale"] = 1.5
        inst["x0place"] = ["in"] * n
    if rng.random() < 0.4:
        with_restarts(rng, inst)
        inst.pop("incnpt", None)
    if rng.random() < 0.3:
        # solution in a corner: a box face and a set boundary active at the same point
        inst.update(prob="target", m=n, bounds="both", corner=True, x0place=["in"] * n, x0feas="in")
    if rng.random() < 0.3:
        up = {"regression.num_extra_steps": int(_pick(rng, [1, 2]))}
        if rng.random() < 0.6:
            up["regression.momentum_extra_steps"] = True
        inst["user_params"] = up
    if rng.random() < 0.2:
        # hard restarts that re-evaluate their start point, together with options that store points un-projected (momentum steps)
        inst.update(restarts="hardnew", maxunsucc=3, rhoend_scale=1.0)
        inst.pop("incnpt", None)
        inst["user_params"] = {"regression.num_extra_steps": 1, "regression.momentum_extra_steps": True}
    inst["rhoend"] = float(_pick(rng, [1e-2, 1e-4]))
    inst["maxfun"] = int(_pick(rng, [15, 40, 80]))
    inst["timeout"] = 120.0
    return inst
