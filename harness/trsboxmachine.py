"""C12, inside the kernel: spec/Trsbox.tla model-checked (invariants, action property, termination), and monitored calls of the REAL trsbox
validated against it (spec/TrsboxTrace.tla).  See harness/trsboxmon.py for what a snapshot is."""
import concurrent.futures as cf
import json
import os
import warnings

import numpy as np

from . import vlib

# Clauses that are the property's own statements (C12: box, radius, returned gradient) evaluated at intermediate states with LOOSER tolerances than at
# the return: nothing later in the kernel repairs them, so a failure is a failure of the returned step.  Everything else the monitor sees -
# a pass the specification cannot follow, a counter invariant, QRED not being the decrease achieved so far, a fixed variable that moved - concerns
# the kernel's internal bookkeeping, which C12 does not speak about: reported as conformance NOTES (evidence, NOTE lines), never as violations.
VERDICT_CLAUSES = {"trsbox_internal_box", "trsbox_internal_ball", "trsbox_internal_gnew", "trsbox_internal_finite"}
INVS = ["Inv_NactCount", "Inv_IterBound", "Inv_ItercBound", "Inv_CGPassBound", "Inv_RestartBound", "Inv_OuterBound"]


def _cfg(path, n, inner, fortran=False, extra_inv=(), live=True, cover=False):
    with open(path, "w") as f:
        f.write("SPECIFICATION Spec\nCONSTANTS\n  N = %d\n  MaxInner = %d\n  NactFromInit = %s\n" % (n, inner, "TRUE" if fortran else "FALSE"))
        for i in list(INVS) + list(extra_inv):
            f.write("INVARIANT %s\n" % i)
        f.write("PROPERTY MonoProp\n")
        if live:
            f.write("PROPERTY Terminates\n")
        if cover:
            f.write("ACTION_CONSTRAINT EmitKind\n")
        f.write("CHECK_DEADLOCK FALSE\n")


def model_check(wd, tier):
    """Trsbox.tla: the code's counting (every invariant, Mono, termination), Powell's counting (in addition AltNeedsTwoFree), and the set of
    abstract transition kinds reachable for n = 3 (denominator of the binding's coverage)."""
    os.makedirs(wd, exist_ok=True)
    n = 3 if tier == "quick" else 4
    out = dict(runs=[], states=0, transitions=0, violated=[])
    jobs = [("asis", n, False, (), True, False), ("fortran", 3, True, ("AltNeedsTwoFree",), True, False), ("kinds", 3, False, (), False, True)]
    for name, nn, fortran, extra, live, cover in jobs:
        sub = os.path.join(wd, name)
        os.makedirs(sub, exist_ok=True)
        mod = "Trsbox.tla"
        if cover:
            os.makedirs(sub + "_src", exist_ok=True)
            mod = os.path.join(sub + "_src", "TrsboxKinds.tla")
            with open(mod, "w") as f:
                f.write("---- MODULE TrsboxKinds ----\nEXTENDS Trsbox\nEmitKind == PrintT(<<\"KIND\", Kind(st, st')>>)\n====\n")
        cfg = os.path.join(sub, "T.cfg")
        _cfg(cfg, nn, 3, fortran, extra, live, cover)
        r = vlib.run_tlc(mod, cfg, sub, workers=4, heap="2g", timeout=1200)
        if not r["ok"] and not r["violated"]:
            raise vlib.MachineryError("TLC did not complete on Trsbox.tla (%s):\n%s" % (name, r["out"][-2000:]))
        out["runs"].append(dict(config=name, N=nn, distinct=r["distinct"], generated=r["generated"], violated=r["violated"]))
        out["states"] += r["distinct"]
        out["transitions"] += r["generated"]
        out["violated"] += [(name, v) for v in r["violated"]]
        if cover:
            out["kinds"] = sorted(set(json.dumps(k[1]) for k in vlib.extract_printed(r["out"], "KIND")))
    return out


def _hex(a):
    return [float(v).hex() for v in np.asarray(a, dtype=float).ravel()]


def pattern_worker(args):
    """a chunk of Kernels.tla class patterns -> monitored calls of the real trsbox"""
    tid, states, seed, reps = args
    vlib.import_dfols()
    from . import trsboxmon, kernels
    if not trsboxmon.install():
        return dict(structure=False, calls=[])
    calls = []
    for si, st in enumerate(states):
        for rep in range(reps):
            rng = np.random.default_rng([seed, 1212, tid, si, rep])
            try:
                kernels.trsbox_call(st, rng)
            except AssertionError:
                trsboxmon._state["cur"] = None
                continue
            for c in trsboxmon.take():
                c["src"] = dict(kind="pattern", state=st, chunk=tid, index=si, rep=rep)
                calls.append(c)
    trsboxmon.uninstall()
    return dict(structure=True, calls=calls)


def solver_worker(inst):
    """one recorded solver run under the monitor -> its trsbox calls (realistic inputs: models fitted to data, bounds from the run)"""
    vlib.import_dfols()
    from . import trsboxmon, recorder
    if not trsboxmon.install(maxcalls=400):
        return dict(structure=False, calls=[])
    try:
        with warnings.catch_warnings():
            warnings.simplefilter("ignore")
            recorder.record(inst, timeout=float(inst.get("timeout", 60.0)))
    except recorder.WrapperError as e:
        trsboxmon.uninstall()
        return dict(machinery="recorder failed on instance %s: %s" % (inst.get("id"), e))
    calls = trsboxmon.take()
    for k, c in enumerate(calls):
        c["src"] = dict(kind="solver", inst=inst, call=k)
    trsboxmon.uninstall()
    return dict(structure=True, calls=calls)


def _tlc(args):
    path, wd = args
    return vlib.run_tlc("TrsboxTrace.tla", "TrsboxTrace.cfg", wd, workers=1, heap="2g", env={"TRACE_FILE": path}, timeout=3000)


def validate(calls, wd, chunk=4000, cover=True):
    """-> (per: {index: [[clause, l], ...]}, kinds observed, generated states)"""
    os.makedirs(wd, exist_ok=True)
    jobs = []
    for ci in range(0, len(calls), chunk):
        sub = os.path.join(wd, "c%d" % ci)
        os.makedirs(sub, exist_ok=True)
        p = os.path.join(sub, "traces.json")
        with open(p, "w") as f:
            json.dump([dict(id=ci + i + 1, ev=c["ev"]) for i, c in enumerate(calls[ci:ci + chunk])], f)
        jobs.append((p, sub))
    per, gen = {}, 0
    with cf.ThreadPoolExecutor(max_workers=8) as ex:
        results = list(ex.map(_tlc, jobs))
    for (p, sub), r in zip(jobs, results):
        if not r["ok"]:
            raise vlib.MachineryError("trace validation against TrsboxTrace.tla did not complete (%s):\n%s" % (p, r["out"][-2500:]))
        gen += r["generated"]
        for rec in vlib.extract_printed(r["out"], "DONE"):
            per[int(rec[1]) - 1] = rec[2]
    missing = [i for i in range(len(calls)) if i not in per]
    if missing:
        raise vlib.MachineryError("monitored calls not consumed to their end: %s" % missing[:5])
    kinds = set()
    for c in calls:
        ev = c["ev"]
        for a, b in zip(ev, ev[1:]):
            fa = sum(1 for v in a["xb"] if v)
            fb = sum(1 for v in b["xb"] if v)
            kinds.add(json.dumps([a["pc"], b["pc"], fb - fa, b["iterc"] - a["iterc"], bool(b["bz"]) if b["pc"] == "cg" else False]))
    return per, kinds, gen


def selftest(calls, wd):
    """the binding must be able to say no: corrupted copies of accepted monitored calls have to be rejected with the expected clause"""
    import copy
    base = [c for c in calls if len(c["ev"]) >= 4][:40]
    muts, want = [], []
    for c in base:
        ev = c["ev"]
        a = copy.deepcopy(ev)
        del a[len(a) // 2]
        muts.append(dict(ev=a))
        want.append({"trsbox_step_not_in_spec"})
        b = copy.deepcopy(ev)
        b[-2]["nact"] += 1
        muts.append(dict(ev=b))
        want.append({"trsbox_inv_nact_count", "trsbox_step_not_in_spec"})
        k = next((i for i, e in enumerate(ev) if any(e["xb"]) and i + 1 < len(ev)), None)
        if k is not None:
            d = copy.deepcopy(ev)
            j = [i for i, v in enumerate(d[k]["xb"]) if v][0]
            for e in d[k + 1:]:
                e["xb"][j] = 0
            muts.append(dict(ev=d))
            want.append({"trsbox_fixed_variable_released"})
    if not muts:
        return dict(corrupted=0, rejected=0)
    per, _, _ = validate(muts, wd)
    rej = 0
    for i, w in enumerate(want):
        got = set(cl for cl, _ in per[i])
        if w & got:
            rej += 1
        else:
            raise vlib.MachineryError("TrsboxTrace.tla accepted a corrupted call (expected one of %s, got %s)" % (sorted(w), sorted(got)))
    return dict(corrupted=len(muts), rejected=rej)


def part(V, tier, wd, patterns, solver_insts, reps):
    import multiprocessing as mp
    mc = model_check(os.path.join(wd, "trsbox_model"), tier)
    for name, inv in mc["violated"]:
        V.report(dict(clause="model_" + inv, site="Trsbox.tla", cls=name, what="Trsbox.tla (%s): TLC reports %s violated" % (name, inv),
                      instance=dict(kind="model", module="Trsbox.tla", config=name)))
    nch = 32
    chunks = [(i + 1, patterns[i::nch], vlib.seed(), reps) for i in range(nch) if patterns[i::nch]]
    ctx = mp.get_context("fork")
    with ctx.Pool(min(16, vlib.NCPU)) as pool:
        res = pool.map(pattern_worker, chunks)
        sres = pool.map(solver_worker, solver_insts, chunksize=1) if solver_insts else []
    for r in list(res) + list(sres):
        if "machinery" in r:
            raise vlib.MachineryError(r["machinery"])
    structure = all(r["structure"] for r in list(res) + list(sres))
    calls = [c for r in res for c in r["calls"]]
    scalls = [c for r in sres for c in r["calls"]]
    allc = calls + scalls
    hits = {}
    per, kinds, gen = ({}, set(), 0)
    if allc:
        per, kinds, gen = validate(allc, os.path.join(wd, "trsbox_traces"))
    notes, nprinted = {}, 0
    for i, viols in sorted(per.items()):
        seen = set()
        for clause, l in viols:
            if clause not in VERDICT_CLAUSES:
                notes[clause] = notes.get(clause, 0) + 1
                if nprinted < 5 and clause not in seen:
                    nprinted += 1
                    print("NOTE: monitored trsbox call %d (%s, n = %d): %s at snapshot %d - the kernel's internal bookkeeping departs from Trsbox.tla (conformance, not a C12 verdict)"
                          % (i, allc[i]["src"]["kind"], allc[i]["n"], clause, l))
                seen.add(clause)
                continue
            hits[clause] = hits.get(clause, 0) + 1
            if clause in seen:
                continue
            seen.add(clause)
            c = allc[i]
            e = c["ev"][l - 1]
            V.report(dict(clause=clause, site="trsbox", cls="n%d/%s" % (c["n"], c["src"]["kind"]),
                          what="monitored trsbox call (%s): clause %s false at snapshot %d of %d: %s" % (c["src"]["kind"], clause, l, len(c["ev"]), json.dumps(e)[:300]),
                          instance=dict(kind="trsbox_machine", src=c["src"], snapshot=l)))
    st = selftest([c for i, c in enumerate(allc) if not per.get(i)], os.path.join(wd, "trsbox_selftest"))
    reach = set(mc.get("kinds", []))
    obs3 = set(k for k in kinds)
    return dict(model=mc["runs"], model_states=mc["states"], model_transitions=mc["transitions"], loop_structure_recognised=structure,
                monitored_calls=len(calls), monitored_calls_inside_solver_runs=len(scalls), snapshots=sum(len(c["ev"]) for c in allc),
                calls_outside_scale_domain=sum(1 for c in allc if not c["dom"]), tlc_states=gen, clause_failures=hits, conformance_notes=notes, binding_selftest=st,
                transition_kinds_reachable_n3=len(reach), transition_kinds_observed=len(obs3), kinds_reachable_not_observed=sorted(reach - obs3)[:12],
                kinds_observed_not_reachable_n3=sorted(obs3 - reach)[:12],
                max_cg_passes=max([max(e["passes"] for e in c["ev"]) for c in allc] or [0]), max_inner_passes=max([c["maxinner"] for c in allc] or [0]))


def replay_call(inst, wd):
    """re-run the reported call under the monitor and validate it again"""
    src = inst["src"]
    if src["kind"] == "pattern":
        r = pattern_worker((src["chunk"], [src["state"]] * (src["index"] + 1), vlib.seed(), src["rep"] + 1))
        calls = [c for c in r["calls"] if c["src"]["index"] == src["index"] and c["src"]["rep"] == src["rep"]]
    else:
        r = solver_worker(src["inst"])
        calls = [c for c in r.get("calls", []) if c["src"]["call"] == src["call"]]
    if not calls:
        print("the call was not reproduced")
        return 0
    per, _, _ = validate(calls, wd)
    bad = 0
    for i, viols in per.items():
        for clause, l in viols:
            bad += 1
            print("  clause %s false at snapshot %d:" % (clause, l))
            for e in calls[i]["ev"][max(0, l - 2):l]:
                print("     %s" % json.dumps(e))
    return 1 if bad else 0
