"""Code -> spec binding for spec/Sfista.tla: sys.monitoring LINE / PY_RETURN events on the code object of dfols.trust_region.ctrsbox_sfista (no source change).
One snapshot at the first statement of every loop pass and one at the return: the loop index, the iteration count the loop runs (MAX_LOOP_ITERS), the count the
code's smoothing parameter corresponds to (2*delta / (u * L_h), read back from the frame's u), and the theoretical count recomputed here from the call's own arguments."""
import ast
import inspect
import math
import sys

import numpy as np

TOOL = 4
_S = dict(installed=False, calls=[], cur=None, line=None, code=None, maxcalls=0)


def locate(module):
    try:
        tree = ast.parse(inspect.getsource(module))
    except (OSError, SyntaxError):
        return None
    fn = [n for n in tree.body if isinstance(n, ast.FunctionDef) and n.name == "ctrsbox_sfista"]
    if len(fn) != 1:
        return None
    loops = [s for s in fn[0].body if isinstance(s, (ast.For, ast.While))]
    if len(loops) != 1:
        return None
    return loops[0].body[0].lineno


def _counts(loc):
    delta, L_h, u = float(loc["delta"]), float(loc["L_h"]), float(loc["u"])
    k_H, func_tol = float(loc["k_H"]), float(loc["func_tol"])
    scale = float(loc.get("sfista_iters_scale", 1.0))
    cap = int(loc["max_iters"])
    try:
        theory = int(math.ceil(scale * delta * (L_h + math.sqrt(L_h * L_h + 2 * k_H * func_tol)) / func_tol))
    except (ValueError, OverflowError, ZeroDivisionError):
        theory = cap
    uc = 2.0 * delta / (u * L_h)
    ucount = int(round(uc)) if math.isfinite(uc) and abs(uc) < 2 ** 30 else 2 ** 30
    if abs(uc - ucount) > 1e-6 * max(1.0, abs(uc)):
        ucount = -1 if ucount != 2 ** 30 else ucount      # u does not correspond to any whole iteration count
    return min(theory, 2 ** 30), cap, ucount


def _snap(pc, k, loc):
    cur = _S["cur"]
    theory, cap, ucount = cur["counts"]
    cur["ev"].append(dict(pc=pc, k=int(k), theory=theory, cap=cap, maxit=int(loc["MAX_LOOP_ITERS"]), ucount=ucount))


def _on_line(code, line):
    if code is not _S["code"] or line != _S["line"]:
        return sys.monitoring.DISABLE
    loc = sys._getframe(1).f_locals
    if loc["k"] == 0 or _S["cur"] is None:
        _S["cur"] = dict(ev=[], counts=_counts(loc), n=int(np.size(loc["g"])))
    _snap("loop", loc["k"], loc)
    return None


def _on_return(code, offset, retval):
    if code is not _S["code"]:
        return None
    loc = sys._getframe(1).f_locals
    if "MAX_LOOP_ITERS" not in loc or "u" not in loc:
        return None
    if _S["cur"] is None:           # the loop body never ran
        _S["cur"] = dict(ev=[], counts=_counts(loc), n=int(np.size(loc["g"])))
        _snap("loop", 0, loc)
    cur = _S["cur"]
    last = cur["ev"][-1]
    # the state after the last pass that began, then the terminal state
    kdone = last["k"] + 1 if ("k" in loc and last["pc"] == "loop" and len(cur["ev"]) > 0 and loc.get("k", -1) == last["k"] and "prev_d" in loc) else last["k"]
    cur["ev"].append(dict(last, pc="loop", k=kdone))
    cur["ev"].append(dict(last, pc="done", k=kdone))
    if len(_S["calls"]) < _S["maxcalls"]:
        _S["calls"].append(dict(n=cur["n"], ev=cur["ev"]))
    _S["cur"] = None
    return None


def install(maxcalls=2000):
    import dfols.trust_region as T
    _S["calls"], _S["cur"], _S["maxcalls"] = [], None, maxcalls
    line = locate(T)
    if line is None:
        return False
    _S["line"], _S["code"] = line, T.ctrsbox_sfista.__code__
    mon = sys.monitoring
    if not _S["installed"]:
        mon.use_tool_id(TOOL, "dfv-sfista")
        mon.register_callback(TOOL, mon.events.LINE, _on_line)
        mon.register_callback(TOOL, mon.events.PY_RETURN, _on_return)
        _S["installed"] = True
    mon.set_local_events(TOOL, _S["code"], mon.events.LINE | mon.events.PY_RETURN)
    mon.restart_events()
    return True


def uninstall():
    if _S["installed"]:
        mon = sys.monitoring
        mon.set_local_events(TOOL, _S["code"], 0)
        mon.register_callback(TOOL, mon.events.LINE, None)
        mon.register_callback(TOOL, mon.events.PY_RETURN, None)
        mon.free_tool_id(TOOL)
        _S["installed"] = False


def take():
    out, _S["calls"] = _S["calls"], []
    return out
