"""Checks decided on whole-solver traces + the Dfols.tla control machine: C01 C02 C03 C04 C08 C09 C10 C11 C18 C19."""
import concurrent.futures as cf
import json
import os
import time

import numpy as np

from . import vlib, strace, corpus, modelcheck as mc

# ----------------------------------------------------------------------------------------------- model part

QUICK_MODELS = [
    ("base", dict(MaxFun=5)),
    ("soft", dict(UseRestarts=True, MaxFun=5)),
    ("soft_drop", dict(UseRestarts=True, RhoendScaleDrop=1, MaxFun=5)),
    ("hard_old", dict(UseRestarts=True, SoftRestarts=False, MaxFun=5)),
    ("hard_new", dict(UseRestarts=True, SoftRestarts=False, UseOldRk=False, MaxFun=5)),
    ("avg", dict(MaxSamples=2, MaxFun=4)),
    ("small_inf", dict(Small=0, MaxFun=5, WithInf=True)),
    ("soft_unsucc1", dict(UseRestarts=True, MaxUnsucc=1, MaxFun=4, WithInf=True)),
    ("noise_soft", dict(WithNoise=True, UseRestarts=True, MaxFun=4)),
    ("regress", dict(RegSteps=1, MaxFun=5, NPT=3)),
    ("grow", dict(NdirsInit=1, NPT=3, MaxFun=5)),
    ("huge_anydrop", dict(WithInf=True, WithHuge=True, RhoDropAny=True, RhoLevels=3, MaxFun=5)),     # the generalisations used when real runs are followed (DfolsCtl.tla)
    ("grownew", dict(NdirsInit=1, NPT=3, MaxFun=5, NewDirs=1)),
]
THOROUGH_MODELS = [
    ("grownew2_soft", dict(NdirsInit=1, NPT=4, MaxFun=6, NewDirs=2, UseRestarts=True)),
    ("huge_anydrop_soft", dict(WithInf=True, WithHuge=True, RhoDropAny=True, RhoLevels=3, MaxFun=5, UseRestarts=True, NoisyObjective=True)),
    ("huge_anydrop_hardnew", dict(WithInf=True, WithHuge=True, RhoDropAny=True, RhoLevels=3, MaxFun=5, UseRestarts=True, SoftRestarts=False, UseOldRk=False, NoisyObjective=True)),
    ("grow6", dict(NdirsInit=1, NPT=3, MaxFun=6)),
    ("grow_soft", dict(NdirsInit=1, NPT=3, MaxFun=6, UseRestarts=True)),
    ("grow_hard", dict(NdirsInit=1, NPT=3, MaxFun=6, UseRestarts=True, SoftRestarts=False)),
    ("grow_avg", dict(NdirsInit=1, NPT=3, MaxFun=5, MaxSamples=2)),
    ("noise_soft5", dict(WithNoise=True, UseRestarts=True, MaxFun=5)),
    ("noise_hard", dict(WithNoise=True, UseRestarts=True, SoftRestarts=False, MaxFun=5)),
    ("regress6", dict(RegSteps=1, MaxFun=6, NPT=3)),
    ("regress2_soft", dict(RegSteps=2, MaxFun=5, NPT=3, UseRestarts=True)),
    ("base6", dict(MaxFun=7)),
    ("soft6", dict(UseRestarts=True, MaxFun=6)),
    ("soft6_nomove", dict(UseRestarts=True, MaxFun=6, MoveXk=False, NumGeom=2, NPT=3)),
    ("soft_drop6", dict(UseRestarts=True, RhoendScaleDrop=1, MaxFun=6)),
    ("hard_old6", dict(UseRestarts=True, SoftRestarts=False, MaxFun=6)),
    ("hard_new6", dict(UseRestarts=True, SoftRestarts=False, UseOldRk=False, MaxFun=6)),
    ("hard_drop", dict(UseRestarts=True, SoftRestarts=False, RhoendScaleDrop=1, MaxFun=5, RhoLevels=3)),
    ("avg5", dict(MaxSamples=2, MaxFun=5)),
    ("avg_soft", dict(MaxSamples=2, MaxFun=5, UseRestarts=True)),
    ("avg_hard", dict(MaxSamples=2, MaxFun=5, UseRestarts=True, SoftRestarts=False)),
    ("small_inf6", dict(Small=0, MaxFun=6, WithInf=True)),
    ("small1_soft", dict(Small=1, MaxFun=5, UseRestarts=True)),
    ("npt3", dict(NPT=3, MaxFun=6)),
    ("incnpt", dict(UseRestarts=True, IncNpt=1, MaxFun=6)),
    ("incnpt_hard", dict(UseRestarts=True, SoftRestarts=False, IncNpt=1, MaxFun=6)),
    ("soft_unsucc1", dict(UseRestarts=True, MaxUnsucc=1, MaxFun=5, WithInf=True)),
    ("soft_unsucc0", dict(UseRestarts=True, MaxUnsucc=0, MaxFun=5)),
    ("vmax3", dict(VMax=3, MaxFun=5, UseRestarts=True)),
]
LIVENESS = [("live_base", dict(MaxFun=4)), ("live_soft_drop", dict(UseRestarts=True, RhoendScaleDrop=1, MaxFun=4)),
            ("live_hard", dict(UseRestarts=True, SoftRestarts=False, MaxFun=4)), ("live_avg", dict(MaxSamples=2, MaxFun=3, UseRestarts=True))]
# as-found settings: each must make TLC exhibit the named violation (the invariants are not vacuous)
SENSITIVITY = [
    ("DefSoftSwap", dict(UseRestarts=True, DefSoftSwap=True, MaxFun=5), "C03_EveryIter", False),
    ("DefTrialLost", dict(DefTrialLost=True), "C04_BestKept", False),
    ("DefX0EvalNum", dict(DefX0EvalNum=True, Small=0), "C03_Returned", False),
    ("DefHardEvalNum", dict(DefHardEvalNum=True, UseRestarts=True, SoftRestarts=False), "C03_EveryIter", False),
    ("DefDoubleNruns", dict(DefDoubleNruns=True, MaxSamples=2, MaxFun=1), "C10_Nruns", False),
    ("DefSuccessNonFinite", dict(DefSuccessNonFinite=True, UseRestarts=True, MaxUnsucc=1, MaxFun=4), "C10_SuccessFinite", False),
    ("DefNaNCompare", dict(DefNaNCompare=True), "C04_EveryIter", False),
    ("DefCtrlRhoend", dict(DefCtrlRhoend=True, UseRestarts=True, RhoendScaleDrop=1, MaxFun=4), "Termination", True),
    ("DefAutoFlagLeak", dict(DefAutoFlagLeak=True, UseRestarts=True, SoftRestarts=False, MaxFun=4), "C07_DocumentedFlag", False),
]

INV_OF = {
    "C02": (["TypeOK", "C02_Budget", "C02_Counters", "C02_NfIsSum", "C02_Samples"], ["C02_Monotone"]),
    "C03": (["C03_EveryIter", "C03_Returned"], []),
    "C04": (["C04_BestKept", "C04_EveryIter"], ["C04_Monotone"]),
    "C08": (["C08_FiniteRetained", "C10_SuccessFinite", "C02_Budget", "C03_Returned"], []),
    "C10": (["C10_SmallTruth", "C10_RhoendTruth", "C10_MaxfunTruth", "C10_UnsuccTruth", "C10_Nruns", "C10_SuccessFinite"], []),
    "C11": (["C11_JacNames", "C11_Snapshot"], []),
    "C18": (["C18_Radii"], []),
    "C07": (["C07_DocumentedFlag"], []),
}


def model_part(prop, tier, V, workdir, with_liveness=False):
    """Model-check Dfols.tla for the invariants of `prop`.  Returns coverage numbers; reports violations to V."""
    invs, props = INV_OF.get(prop, ([], []))
    runs = list(QUICK_MODELS if tier == "quick" else QUICK_MODELS + THOROUGH_MODELS)
    jobs = [(n, o, False) for n, o in runs]
    if with_liveness:
        jobs += [(n, o, True) for n, o in (LIVENESS[:2] if tier == "quick" else LIVENESS)]
    nw = max(2, vlib.NCPU // 4)

    def one(job):
        n, o, live = job
        return mc.run_dfols(workdir, "%s_%s" % (prop, n), o, invariants=invs, props=props, liveness=live, workers=nw,
                            timeout=900 if tier == "quick" else 3000)
    with cf.ThreadPoolExecutor(max_workers=4) as ex:
        results = list(ex.map(one, jobs))
    states = trans = 0
    detail = []
    for (n, o, live), r in zip(jobs, results):
        vlib.tlc_machinery_check(r, "Dfols.tla/%s" % n)
        states += r["distinct"]
        trans += r["generated"]
        detail.append(dict(config=n, constants=r["consts"], distinct=r["distinct"], generated=r["generated"], wall=round(r["wall"], 1),
                           liveness=live, violated=r["violated"]))
        for v in r["violated"]:
            V.report(dict(clause=v, site="Dfols.tla", cls=n, what="TLC: %s violated in Dfols.tla with constants %s" % (v, r["consts"]),
                          instance=dict(kind="model", config=n, constants=r["consts"], invariants=invs, props=props, liveness=live)))
    out = dict(states=states, transitions=trans, model_runs=detail)
    if tier == "thorough":
        out["sensitivity"] = sensitivity(workdir, V)
    return out


def sensitivity(workdir, V):
    """Run the as-found (Def*=TRUE) settings: TLC must exhibit every one of them.  A flag that is NOT detected is a
    machinery failure (the invariant would be vacuous), never a verdict about /repo."""
    res = []
    for n, o, want, live in SENSITIVITY:
        r = mc.run_dfols(workdir, "sens_" + n, o, liveness=live, workers=4, timeout=900)
        ok = want in r["violated"]
        res.append(dict(flag=n, expected=want, detected=ok))
        if not ok:
            raise vlib.MachineryError("sensitivity: %s=TRUE did not make TLC report %s (got %s)" % (n, want, r["violated"]))
    return res


# ------------------------------------------------------------------------------------------- trace part

CTL_PROPS = {"C02": (24, 240), "C03": (24, 240), "C04": (24, 240), "C10": (32, 300), "C08": (16, 160), "C11": (12, 120), "C18": (12, 120)}


def trace_part(prop, insts, V, workdir, samples=3, nproc=None):
    t0 = time.time()
    traces = strace.record_many(insts, nproc=nproc)
    trec = time.time() - t0
    res = strace.validate(prop, traces, workdir)
    ctl_cov = {}
    if prop in CTL_PROPS:
        from . import ctltrace
        ctl_cov = ctltrace.conformance_part(prop, insts, traces, V, os.path.join(workdir, "ctl"), CTL_PROPS[prop][0 if vlib_tier(V) == "quick" else 1])
    byid = {i["id"]: i for i in insts}
    trbyid = {t["id"]: t for t in traces}
    nviol = 0
    clause_hits = {}
    for tid, viols in res["per"].items():
        seen = set()
        for clause, l in viols:
            t = trbyid[tid]
            evname = t["ev"][l - 1]["ev"] if 1 <= l <= len(t["ev"]) else "?"
            key = (clause, evname)
            clause_hits[clause] = clause_hits.get(clause, 0) + 1
            if key in seen:
                continue
            seen.add(key)
            win = t["ev"][max(0, l - 4):l]
            evt = t["ev"][l - 1] if 1 <= l <= len(t["ev"]) else {}
            if clause == "identical_to_reference_run":
                if "c19first" in seen:
                    continue          # later differences are consequences of the first one
                seen.add("c19first")
            if V.report(dict(clause=clause, site=evname, cls=cfg_class(byid[tid]), retflag="%s/%s" % (evt.get("flag"), evt.get("msgc")),
                             hasproj="yes" if byid[tid].get("proj") else "no", dyksite=str(evt.get("site", "")), exc=("%s: %s" % (evt.get("type"), str(evt.get("text"))[:60])) if evname == "Raise" else "",
                             retnx=str(evt.get("nx", "")), initrepair=str(t["summary"].get("initrepair", "")), pclass=str(byid[tid].get("pclass", "")), growsafety=str(t["summary"].get("growsafety", "no")), growover=_growover(byid[tid]), averaging="yes" if byid[tid].get("nsamples", "1") != "1" else "no", what="trace %d event %d (%s): clause %s false" % (tid, l, evname, clause),
                             instance=dict(kind="solver", inst=byid[tid]), window=win, cfg=t["cfg"])):
                nviol += 1
    outcomes, classes, counts = {}, set(), {}
    nev = 0
    for t in traces:
        s = t["summary"]
        k = "%s/%s/%s" % (s["outcome"], s.get("flag"), s.get("msgc"))
        outcomes[k] = outcomes.get(k, 0) + 1
        classes.add(cfg_class(byid[t["id"]]) + "|" + k)
        nev += s["nev"]
        for e, c in s["counts"].items():
            counts[e] = counts.get(e, 0) + c
    smp = []
    for t in traces[:samples]:
        smp.append(dict(instance=byid[t["id"]], outcome=t["summary"], first_events=t["ev"][:6]))
    cov = dict(traces_validated_against_impl=len(traces), evaluations=len(traces), distinct_nontrivial=len(classes), events=nev, event_counts=counts,
               outcomes=outcomes, trace_states=res["distinct"], record_wall=round(trec, 1), tlc_trace_wall=round(res["wall"], 1),
               clause_failures=clause_hits, samples=smp)
    cov.update(ctl_cov)
    return cov, traces


def vlib_tier(V):
    return getattr(V, "tier", "quick")


def cfg_class(inst):
    """configuration class of an instance (everything but the seed / concretisation)"""
    keys = ["prob", "bounds", "scaling", "nsamples", "restarts", "npt", "growing", "reg", "incnpt", "noise", "diag"]
    parts = ["n%d" % inst["n"]]
    for k in keys:
        if inst.get(k):
            parts.append("%s=%s" % (k, inst[k]))
    if inst.get("proj"):
        parts.append("proj=" + "+".join(inst["proj"]))
    if inst.get("fault"):
        parts.append("fault=" + inst["fault"]["kind"])
    if inst.get("x0place"):
        parts.append("x0=" + "/".join(sorted(set(inst["x0place"]))))
    return ",".join(parts)


def rule_text(prop):
    return ("instances are generated per configuration class (harness/corpus.py; VERIF_SEED only changes the concretisation inside a class); "
            "each is run through the real dfols.solve under the recorder and the trace is validated against spec/DfolsTrace.tla with Prop=%s; "
            "distinct_nontrivial counts distinct (configuration class, outcome) pairs among the validated traces" % prop)


ASSUME = ["the recorder's wrappers pass arguments and results through unchanged (harness/recorder.py)",
          "floats are compared through per-trace dense ranks, which preserve order exactly",
          "TLC explores Dfols.tla exhaustively only for the small constants listed under model_runs",
          "numerical kernels are abstracted to nondeterministic choices in Dfols.tla"]


# --------------------------------------------------------------------------------------- corpora per property

def _rng(salt):
    return np.random.default_rng([vlib.seed(), salt])


def ref_nf(inst):
    """number of evaluations of the unbudgeted reference run (used by budget / fault sweeps)"""
    t = strace.record_one(dict(inst, id=0))
    if "machinery" in t:
        raise vlib.MachineryError(t["machinery"])
    return int(t["summary"].get("nf") or sum(1 for e in t["ev"] if e["ev"] == "Call"))


def _growover(inst):
    """the set is grown direction by direction (growing.ndirs_initial) towards MORE than n+1 points: new directions are asked for after n exist"""
    if not inst.get("growing") or not inst.get("npt"):
        return "no"
    n = int(inst["n"])
    npt = {"n+1": n + 1, "2n+1": 2 * n + 1, "mid": n + 1 + max(1, n // 2), "n+2": n + 2, "full": (n + 1) * (n + 2) // 2}[inst["npt"]] if isinstance(inst["npt"], str) else int(inst["npt"])
    return "yes" if npt > n + 1 else "no"


def corpus_C02(tier):
    rng = _rng(2)
    bases = [
        dict(n=2, m=3, prob="nl", rhoend=1e-2),
        dict(n=2, m=3, prob="nl", rhoend=1e-2, nsamples="2"),
        dict(n=2, m=2, prob="ros3", rhoend=1e-2, nsamples="alt3", restarts="soft", maxunsucc=1),
        dict(n=2, m=2, prob="ros3", rhoend=1e-2, restarts="hard", maxunsucc=1, nsamples="runs"),
        dict(n=2, m=2, prob="ros3", rhoend=1e-2, restarts="hardnew", maxunsucc=1),
        dict(n=2, m=2, prob="ros3", rhoend=1e-1, restarts="hardnew", maxunsucc=2, nsamples="3"),
        dict(n=2, m=3, prob="nl", rhoend=1e-2, nsamples="alt3", npt="2n+1", user_params={"regression.num_extra_steps": 2, "regression.momentum_extra_steps": True}),
        dict(n=3, m=4, prob="nl", rhoend=1e-2, npt="2n+1", nsamples="zero", bounds="both", x0place=["L", "in", "U"]),
        dict(n=2, m=3, prob="nl", rhoend=1e-2, restarts="soft", maxunsucc=1, incnpt=2, nsamples="2"),
        dict(n=2, m=3, prob="nl", rhoend=1e-2, restarts="hard", maxunsucc=2, incnpt=1, npt="n+1"),
        dict(n=2, m=3, prob="nl", rhoend=1e-1, noise=True, noise_sd=1e-2, nsamples="2", maxunsucc=1),
        dict(n=2, m=2, prob="lin", rhoend=1e-3, growing=1),
        dict(n=2, m=3, prob="nl", rhoend=1e-2, proj=["ball"], x0feas="far"),
    ]
    if tier == "thorough":
        for i in range(40):
            b = corpus.general(rng, 0, allow=("bounds", "restarts", "avg", "npt", "growing", "regress", "noiseflag"))
            b["rhoend"] = 1e-2
            bases.append(b)
    insts = []
    for bi, b in enumerate(bases):
        b = dict(b)
        b.setdefault("seed", int(rng.integers(0, 2 ** 31 - 1)))
        b["maxfun"] = 70
        nref = min(ref_nf(b), 70)
        step = 1 if tier == "thorough" else max(1, nref // 22)
        insts += corpus.budget_sweep(rng, 1000 * (bi + 1), b, nref, step=step)
    n_extra = 60 if tier == "quick" else 1500
    insts += [corpus.general(rng, 900000 + i) for i in range(n_extra)]
    # dimensions at and above logging.n_to_print_whole_x_vector (6): the solver's log lines use their second format there; with averaging the evaluation
    # and point numbers in them differ
    for j in range(6 if tier == "quick" else 60):
        nn = int(rng.integers(6, 9))
        insts.append(dict(id=950000 + j, seed=int(rng.integers(0, 2 ** 31 - 1)), n=nn, m=nn + 1, prob=corpus._pick(rng, ["nl", "lin"]), rhoend=1e-2, maxfun=int(rng.integers(12, 45)),
                          nsamples=corpus._pick(rng, ["2", "3", "alt3", "1"])))
    return insts


def corpus_general(tier, salt, nq, nt, **kw):
    rng = _rng(salt)
    n = nq if tier == "quick" else nt
    return [corpus.general(rng, i + 1, **kw) for i in range(n)]


def corpus_C01(tier):
    rng = _rng(1)
    n = 200 if tier == "quick" else 4000
    out = []
    for i in range(n):
        inst = corpus.general(rng, i + 1, allow=("restarts", "avg", "npt", "growing", "regress"))
        corpus.with_bounds(rng, inst)
        if i % 3 == 1 and inst["bounds"] in ("lower", "upper"):
            # one-sided bounds that are active at the solution, over magnitudes where xbase + (bound - xbase) rounds
            inst["boxaway"] = True
            inst["maxfun"] = 60
            if i % 2 == 0 and not inst.get("nsamples"):
                inst.update(prob="target1", m=inst["n"] + 1)      # the minimiser lies 5 units beyond the bounds in some coordinates
        if i % 3 == 0 and inst["bounds"] == "both":
            # box away from the unconstrained minimiser: the solution sits on bounds; with scaling the un-scaling of an
            # on-bound solution rounds (lower + 1.0*(upper-lower) != upper)
            inst["boxaway"] = True
            inst["maxfun"] = 60
            if i % 6 == 0:
                inst["scaling"] = True
        if i % 7 == 0:
            inst["restarts"] = "hardnew"
            inst["maxunsucc"] = 2
            inst["maxfun"] = 90
        if i % 9 == 0 and not inst.get("scaling"):
            inst["reg"] = "l1"
            inst["prob"] = "lin"
            inst["lam"] = 0.1
            inst["timeout"] = 200.0
            inst["maxfun"] = 25
            inst.pop("growing", None)
        if i % 11 == 0:
            inst["proj"] = ["ball"]
            inst["bounds"] = "both"
            inst.pop("scaling", None)
            inst.pop("npt", None)
            inst.pop("growing", None)
            inst.pop("incnpt", None)
            inst.pop("reg", None)
            inst["user_params"] = {}
            inst["maxfun"] = 25
        if i % 5 == 2:
            # internal scaling + averaging at the start of every run + x0 on / beyond upper bounds (un-scaling of an on-bound point rounds)
            inst.update(bounds="both", scaling=True, nsamples=corpus._pick(rng, ["2", "3"]), x0place=[corpus._pick(rng, ["U", "aboveU", "U", "L"]) for _ in range(inst["n"])])
            inst.pop("reg", None); inst.pop("proj", None)
            if i % 10 == 2:
                inst.update(restarts="hardnew", maxunsucc=3, maxfun=100, rhoend=1e-2)
        if i % 10 == 3:
            # bounds together with a user projection, solution in a corner where a box face and the set boundary are both active
            n = inst["n"] = max(2, inst["n"])
            inst.update(m=n, prob="target", proj=[corpus._pick(rng, ["ball", "half"])], bounds="both", corner=True, x0place=["in"] * n, maxfun=40, mag=1.0)
            for k in ("scaling", "npt", "growing", "incnpt", "reg", "nsamples", "boxaway"):
                inst.pop(k, None)
            inst["user_params"] = {}
        inst["maxfun"] = max(inst["maxfun"], 20)
        out.append(inst)
    # one-sided bounds, active at the solution: whether xbase + (bound - xbase) rounds to the wrong side depends on the digits of the data, so this
    # class is sampled densely (short runs: the minimiser of a 'target' problem is reached in a few iterations)
    nbase = len(out)
    for j in range(160 if tier == "quick" else 3000):
        inst = corpus.base(rng, nbase + j + 1, prob="target1", n=int(rng.integers(2, 4)), maxfun=30)
        inst.update(m=inst["n"] + 1, bounds=corpus._pick(rng, ["lower", "upper"]), boxaway=True, x0place=["in"] * inst["n"], mag=corpus._pick(rng, [1.0, 1.0, 10.0, 1e3]),
                    smallbounds=bool(j % 2 == 0), roundout=bool(j % 4 == 0))
        if j % 8 == 0:
            inst.update(prob="target", m=inst["n"], tgtonbound=True)     # zero residual at a point on the bounds: 'objective is sufficiently small' at a trial point
        elif j % 5 == 1:
            # the same digit-dependent class under every kind of restart: each of the three calls of solve_main (first run, hard restart re-using r0,
            # hard restart re-evaluating its start) and the soft-restart steps must hand on-bound points to the objective unrounded
            inst.update(restarts=["hardnew", "hard", "soft", "hardnew"][(j // 5) % 4], maxunsucc=2, maxfun=90, rhoend=1e-2)
        out.append(inst)
    return out


def corpus_C03(tier):
    rng = _rng(3)
    n = 220 if tier == "quick" else 4000
    out = []
    for i in range(n):
        inst = corpus.general(rng, i + 1)
        if i % 3 == 0:
            corpus.with_restarts(rng, inst)
            inst["maxfun"] = int(rng.integers(30, 130))
            inst["rhoend"] = 1e-2
        if i % 8 == 5:
            inst = corpus.proj_inst(rng, i + 1)     # convex-constrained: the stored point is re-projected by the read accessor
            if i % 16 == 5:
                inst["proj"] = ["half", "ball", "half"]
                inst["x0feas"] = "far"
        if i % 10 == 0:
            inst["prob"] = "zero"      # exit at x0
        if i % 13 == 0 and not inst.get("scaling"):
            inst["reg"] = "l1"
            inst["prob"] = "lin"
            inst["timeout"] = 200.0
            inst["maxfun"] = 20
            inst.pop("growing", None)
            if i % 26 == 0:
                inst["prob"] = "zero"
                inst["abs_tol"] = 10.0
        out.append(inst)
    for j in range(6 if tier == "quick" else 80):
        # parallel initialisation (all points evaluated first, then processed), with a budget that may end inside it
        out.append(dict(id=310000 + j, seed=int(rng.integers(0, 2 ** 31 - 1)), n=int(rng.integers(2, 4)), m=4, prob="nl", rhoend=1e-2, maxfun=int(corpus._pick(rng, [2, 3, 4, 25])),
                        nsamples=corpus._pick(rng, ["1", "2"]), user_params={"init.run_in_parallel": True, "init.random_initial_directions": True}))
    for j in range(6 if tier == "quick" else 80):
        out.append(dict(id=300000 + j, seed=int(rng.integers(0, 2 ** 31 - 1)), n=2, m=3, prob="lin", reg="l1", lam=float(corpus._pick(rng, [0.1, 1.0])), restarts="soft",
                        maxunsucc=2, incnpt=2, rhoend=1e-2, maxfun=45, mag=float(corpus._pick(rng, [1.0, 5.0])), timeout=300.0,
                        bounds=corpus._pick(rng, ["none", "both"]), x0place=["in", "in"]))
    for j in range(10 if tier == "quick" else 120):
        # regulariser + internal scaling + averaging: the stored objective of a re-sampled point uses h at the USER's coordinates of that point
        nn = int(rng.integers(1, 4))
        out.append(dict(id=330000 + j, seed=int(rng.integers(0, 2 ** 31 - 1)), n=nn, m=nn + 1, prob="lin", reg="l1", lam=float(corpus._pick(rng, [0.1, 1.0])), bounds="both", scaling=True,
                        bscale=float(corpus._pick(rng, [0.2, 3.0])), mag=float(corpus._pick(rng, [0.05, 1.0])), x0place=["in"] * nn, nsamples=corpus._pick(rng, ["2", "3"]), maxfun=30,
                        rhoend=1e-3, timeout=300.0))
    for j in range(12 if tier == "quick" else 150):
        # a genuinely stochastic objective (samples at one point differ) with averaging and soft restarts that APPEND points: every appended point's
        # stored residual must be the mean of ITS samples
        nn = int(rng.integers(2, 4))
        out.append(dict(id=320000 + j, seed=int(rng.integers(0, 2 ** 31 - 1)), n=nn, m=nn + 1, prob=corpus._pick(rng, ["nl", "lin"]), noise=True, noise_sd=float(corpus._pick(rng, [1e-2, 1e-1])),
                        nsamples=corpus._pick(rng, ["2", "3"]), restarts="soft", maxunsucc=4, incnpt=int(rng.integers(1, 3)), rhoend=float(corpus._pick(rng, [1e-1, 3e-2])),
                        maxfun=int(rng.integers(50, 140))))
    # budget sweeps over restart histories in which a LATER run improves on an earlier one (first run stopped early by an
    # aggressive slow-progress test), so that the budget expires at every place of the restarted run
    bases = [dict(n=2, m=2, prob="ros", restarts="hard", maxunsucc=3, rhoend=1e-3, user_params=dict(SLOW)),
             dict(n=2, m=2, prob="ros", restarts="hardnew", maxunsucc=3, rhoend=1e-3, user_params=dict(SLOW)),
             dict(n=2, m=2, prob="ros", restarts="soft", maxunsucc=3, rhoend=1e-3, user_params=dict(SLOW), nsamples="2")]
    if tier == "thorough":
        bases += [dict(n=3, m=4, prob="nl", restarts="hard", maxunsucc=3, rhoend=1e-3, user_params=dict(SLOW), npt="2n+1"),
                  dict(n=3, m=4, prob="nl", restarts="hardnew", maxunsucc=3, rhoend=1e-3, user_params=dict(SLOW), incnpt=2),
                  dict(n=2, m=3, prob="nl", restarts="soft", maxunsucc=3, rhoend=1e-3, user_params=dict(SLOW), incnpt=2, bounds="both", scaling=True)]
    out += _sweeps(rng, bases, tier, 500000, maxfun=70, quick_steps=70)
    return out


def _sweeps(rng, bases, tier, id0, maxfun=70, quick_steps=24):
    insts = []
    for bi, b in enumerate(bases):
        b = dict(b)
        b.setdefault("seed", int(rng.integers(0, 2 ** 31 - 1)))
        b["maxfun"] = maxfun
        nref = min(ref_nf(b), maxfun)
        step = 1 if tier == "thorough" else max(1, nref // quick_steps)
        insts += corpus.budget_sweep(rng, id0 + 1000 * (bi + 1), b, nref, step=step)
    return insts


SLOW = {"slow.max_slow_iters": 2, "slow.thresh_for_slow": 0.3, "slow.history_for_slow": 2}


def corpus_C04(tier):
    rng = _rng(4)
    n = 220 if tier == "quick" else 4000
    out = []
    for i in range(n):
        inst = corpus.general(rng, i + 1, allow=("bounds", "restarts", "npt", "growing", "regress", "small", "diag"))
        if i % 4 == 0:
            inst = corpus.proj_inst(rng, i + 1)   # trust-region-increase warnings happen here
            inst["proj"] = (inst["proj"] + ["half"])[:3] if len(inst["proj"]) < 2 else inst["proj"]
        if i % 5 == 1:
            inst["fault"] = dict(k=int(rng.integers(1, 30)), kind=corpus._pick(rng, ["nan", "pinf", "huge"]))
        out.append(inst)
    for j in range(10 if tier == "quick" else 150):
        # regression extra steps at / beyond the number of points (the code caps them), momentum and geometry variants, growing with restarts
        n = int(rng.integers(1, 4))
        npt = n + 1 + int(rng.integers(0, 2))
        up = {"regression.num_extra_steps": npt + int(rng.integers(-1, 2)), "regression.momentum_extra_steps": bool(j % 2 == 0)}
        inst = dict(id=650000 + j, seed=int(rng.integers(0, 2 ** 31 - 1)), n=n, m=n + 1, prob=corpus._pick(rng, ["nl", "ros3"]) if n == 2 else "nl", npt=npt, rhoend=1e-3,
                    maxfun=int(rng.integers(15, 70)), user_params=up)
        if j % 3 == 0:
            up["regression.increase_num_extra_steps_with_restart"] = 1
            up["regression.num_extra_steps"] = 1
            inst.update(restarts="soft", maxunsucc=4, rhoend=1e-1, maxfun=120)
        out.append(inst)
    # regulariser + internal scaling on a small box around the origin (h at the scaled point is far larger than h at the user's point) with soft restarts:
    # the best point is often held only in the saved slot at exit, so saved and stored values must be comparable
    for j in range(16 if tier == "quick" else 200):
        nn = int(rng.integers(1, 4))
        inst = dict(id=660000 + j, seed=int(rng.integers(0, 2 ** 31 - 1)), n=nn, m=nn + 1, prob="lin", reg="l1", lam=float(corpus._pick(rng, [0.1, 0.5, 1.0])), bounds="both", scaling=True,
                    bscale=float(corpus._pick(rng, [0.05, 0.2])), mag=float(corpus._pick(rng, [0.01, 0.03])), x0place=["in"] * nn, timeout=300.0,
                    restarts="soft", maxunsucc=int(rng.integers(2, 5)), rhoend=float(corpus._pick(rng, [1e-2, 1e-3])), maxfun=int(rng.integers(40, 120)))
        out.append(inst)
    # trust-region-increase exits under soft restarts with the budget expiring at every evaluation (few Dykstra sweeps provoke model increases)
    bases = [dict(n=2, m=3, prob="nl", proj=["ball", "ball", "box"], restarts="soft", maxunsucc=3, rhoend=1e-3, user_params={"dykstra.max_iters": 10}),
             dict(n=3, m=4, prob="nl", proj=["ball", "half", "ball"], restarts="soft", maxunsucc=3, rhoend=1e-3, user_params={"dykstra.max_iters": 5})]
    if tier == "thorough":
        bases += [dict(n=2, m=3, prob="nl", proj=["half", "ball", "box"], restarts="soft", maxunsucc=3, rhoend=1e-3, user_params={"dykstra.max_iters": 10}, bounds="both", bscale=1.5, x0place=["in", "in"]),
                  dict(n=3, m=3, prob="nl", proj=["ball", "ball"], restarts="hard", maxunsucc=3, rhoend=1e-3, user_params={"dykstra.max_iters": 8})]
    out += _sweeps(rng, bases, tier, 600000, maxfun=45, quick_steps=45)
    return out


def corpus_C08(tier):
    rng = _rng(8)
    bases = [
        dict(n=2, m=2, prob="ros3", rhoend=1e-2),
        dict(n=2, m=3, prob="nl", rhoend=1e-2, bounds="both", x0place=["L", "in"]),
        dict(n=2, m=2, prob="ros3", rhoend=1e-2, restarts="soft", maxunsucc=1),
        dict(n=2, m=2, prob="ros3", rhoend=1e-2, restarts="hard", maxunsucc=1),
        dict(n=2, m=3, prob="nl", rhoend=1e-2, nsamples="2"),
        dict(n=2, m=3, prob="nl", rhoend=1e-2, npt="2n+1", diag=True),
        dict(n=2, m=3, prob="nl", rhoend=1e-2, proj=["ball", "half"]),
        dict(n=4, m=5, prob="nl", rhoend=1e-2, growing=1, restarts="soft", maxunsucc=2),
        dict(n=2, m=2, prob="ros3", rhoend=1e-2, print_progress=True, diag=True),
        dict(n=2, m=2, prob="ros3", rhoend=1e-2, restarts="hardnew", maxunsucc=2),
    ]
    if tier == "thorough":
        bases += [
            dict(n=2, m=2, prob="ros3", rhoend=1e-2, restarts="hardnew", maxunsucc=2),
            dict(n=3, m=4, prob="nl", rhoend=1e-2, bounds="both", scaling=True, x0place=["in"]),
            dict(n=2, m=3, prob="nl", rhoend=1e-2, nsamples="alt3", restarts="soft", maxunsucc=1),
            dict(n=2, m=3, prob="nl", rhoend=1e-2, restarts="soft", incnpt=2, maxunsucc=1),
            dict(n=3, m=3, prob="nl", rhoend=1e-2, growing=1),
            dict(n=2, m=3, prob="lin", rhoend=1e-2, reg="l1", timeout=200.0),
            dict(n=2, m=3, prob="nl", rhoend=1e-2, proj=["box", "ball"], bounds="both", bscale=1.5),
            dict(n=2, m=3, prob="nl", rhoend=1e-2, user_params={"regression.num_extra_steps": 1}, npt="2n+1"),
        ]
    insts = []
    for bi, b in enumerate(bases):
        b = dict(b)
        b.setdefault("seed", int(rng.integers(0, 2 ** 31 - 1)))
        b["maxfun"] = 45 if not b.get("reg") else 20
        nref = min(ref_nf(b), b["maxfun"])
        step = 1 if tier == "thorough" else max(1, nref // 9)
        insts += corpus.fault_sweep(10000 * (bi + 1), b, nref, step=step)
    # a fault at exactly the last evaluation the budget allows (nothing later can displace it)
    for bi, b in enumerate(bases[:4] if tier == "quick" else bases):
        b = dict(b)
        b.setdefault("seed", int(rng.integers(0, 2 ** 31 - 1)))
        b["maxfun"] = 60
        nref = min(ref_nf(b), 60)
        step = 1 if tier == "thorough" else 2
        for k in range(2, nref + 1, step):
            for ki, kind in enumerate(("nan",) if tier == "quick" else ("nan", "pinf", "huge")):
                insts.append(dict(b, id=400000 + 1000 * bi + 10 * k + ki, maxfun=k, fault=dict(k=k, kind=kind)))
    # opted-in raise-on-NaN
    for j in range(6):
        b = dict(bases[0], seed=int(rng.integers(0, 2 ** 31 - 1)), maxfun=40, id=800000 + j,
                 user_params={"interpolation.throw_error_on_nans": True}, fault=dict(k=2 + 3 * j, kind="nan"))
        insts.append(b)
    return insts


def corpus_C09(tier):
    rng = _rng(9)
    n = 70 if tier == "quick" else 1500
    out = [corpus.proj_inst(rng, i + 1) for i in range(n)]
    # ONE-sided bounds (bounds=(lower, None) / (None, upper)) together with user sets, the solution where a bound and a set boundary are both active
    for j in range(16 if tier == "quick" else 300):
        nn = int(rng.integers(2, 4))
        inst = corpus.base(rng, n + j + 1, n=nn, m=nn, prob="target")
        inst.update(proj=[corpus._pick(rng, ["ball", "half"])] + (["half"] if j % 3 == 0 else []), bounds=corpus._pick(rng, ["lower", "upper"]), corner=True, x0place=["in"] * nn, x0feas="in",
                    maxfun=40, mag=1.0, rhoend=1e-3, timeout=120.0)
        if j % 4 == 1:
            inst.update(restarts="soft", maxunsucc=2, maxfun=60, x0feas="far")
        out.append(inst)
    return out


def restart_trigger_class(rng, id0, count, diag=True):
    """Restarts entered through EVERY trigger of the main loop - slow progress, noise level, auto-detection, a failed fit, rho at rhoend - and
    not only through the common one.  The main loop carries a copy of the restart boilerplate per trigger (admit, count the run, reset the
    radii): a copy that forgets one of the three is invisible unless its own trigger fires."""
    AUTO = {"restarts.auto_detect.history": 3, "restarts.auto_detect.min_chgJ_slope": 0.0, "restarts.auto_detect.min_correl": 0.0}
    out = []
    trig = ["slow", "noise", "auto", "rhoend", "singular", "slow", "nan", "nangrow"]
    for j in range(count):
        t = trig[j % len(trig)]
        nn = 2 + (j // 6) % 2
        inst = dict(id=id0 + j, seed=int(rng.integers(0, 2 ** 31 - 1)), n=nn, m=nn + 1, prob="nl", restarts=["soft", "soft", "hard", "soft", "hardnew"][(j // 2) % 5], maxunsucc=4,
                    rhoend=1e-6, rhobeg=0.5, maxfun=int(rng.integers(90, 220)), diag=diag, trigger=t)
        up = {}
        if t == "slow":
            up = {"slow.max_slow_iters": int(rng.integers(2, 6)), "slow.thresh_for_slow": float(corpus._pick(rng, [0.3, 1.0, 3.0])), "slow.history_for_slow": int(rng.integers(1, 4))}
        elif t == "noise":
            inst.update(noise=True, noise_sd=1e-3)
            up = {"noise.additive_noise_level": float(corpus._pick(rng, [0.02, 0.1, 0.5]))}
        elif t == "auto":
            inst.update(noise_sd=1e-2)
            up = dict(AUTO)
        elif t == "rhoend":
            inst.update(rhoend=1e-2)
        elif t in ("nan", "nangrow"):
            # a NaN is a restartable exit at whichever site evaluates it: trust-region step, geometry step, safety step, growing step
            inst.update(fault=dict(k=int(rng.integers(nn + 3, 45)), kind=corpus._pick(rng, ["nan", "nan1"])), rhoend=1e-4)
            if t == "nangrow":
                inst.update(growing=1, n=3, m=4, fault=dict(k=int(rng.integers(3, 9)), kind="nan"))
        else:
            inst.update(prob="ros3", n=2, m=2, fault=dict(k=int(rng.integers(5, 40)), kind=corpus._pick(rng, ["pinf", "huge"])), rhoend=1e-3)
        if up:
            inst["user_params"] = up
        out.append(inst)
    return out


def nan_site_sweep(rng, id0, step=1, diag=True, kmax=40):
    """A NaN at EVERY evaluation position of runs with soft restarts that pass through every kind of evaluating step (growing-phase safety steps
    with either safety method, new directions after a successful step, regression extra steps with and without momentum, geometry steps after
    an unsuccessful step): an evaluation error is a restartable exit at whichever copy of the restart boilerplate follows that step."""
    bases = [dict(n=3, m=4, prob="nl", growing=1, rhobeg=1.0),
             dict(n=3, m=4, prob="nl", growing=1, rhobeg=1.0, user_params={"growing.safety.full_geom_step": True}),
             dict(n=3, m=4, prob="nl", growing=1, rhobeg=1.0, user_params={"growing.safety.reduce_delta": True}),
             dict(n=2, m=3, prob="nl", npt="2n+1", user_params={"regression.num_extra_steps": 2}),
             dict(n=2, m=3, prob="nl", npt="2n+1", user_params={"regression.num_extra_steps": 2, "regression.momentum_extra_steps": True}),
             dict(n=2, m=2, prob="ros3", rhobeg=1.0)]
    out = []
    j = 0
    for bi, b in enumerate(bases):
        seed = int(rng.integers(0, 2 ** 31 - 1))
        for k in range(b["n"] + 2 + (bi % step), kmax, step):
            out.append(dict(b, id=id0 + j, seed=seed, restarts="soft", maxunsucc=3, rhoend=1e-4, maxfun=kmax + 25, diag=diag, fault=dict(k=k, kind=["pinf", "nan", "huge"][(k + bi) % 3]), trigger="fault@%d" % k))
            j += 1
    return out


def corpus_C10(tier):
    rng = _rng(10)
    n = 200 if tier == "quick" else 4000
    out = []
    for i in range(n):
        inst = corpus.general(rng, i + 1)
        r = i % 6
        if r == 0:
            inst.update(prob="zres", abs_tol=float(corpus._pick(rng, [1e-6, 1e-2, 1.0])), maxfun=80)
        elif r == 1:
            inst.update(rel_tol=float(corpus._pick(rng, [1e-2, 1e-1, 0.5, 0.9])), maxfun=60, prob=corpus._pick(rng, ["nl", "ros"]), rhobeg=float(corpus._pick(rng, [0.2, 0.5, 1.0])))
            if inst["prob"] == "ros":
                inst.update(n=2, m=2)
            inst.pop("scaling", None)
        elif r == 2:
            corpus.with_restarts(rng, inst)
            inst.update(rhoend=float(corpus._pick(rng, [1e-1, 1e-2, 1e-3])), maxfun=int(rng.integers(40, 160)), prob="ros3", n=2, m=2)
        elif r == 3:
            inst.update(maxfun=int(rng.integers(1, 25)), nsamples=corpus._pick(rng, ["2", "3", "alt3"]))
        elif r == 4:
            inst.update(rhoend=float(corpus._pick(rng, [1e-1, 1e-2, 1e-3])), maxfun=150, prob="ros3", n=2, m=2)
            inst.pop("restarts", None)
        out.append(inst)
    # regulariser + internal scaling + a 'sufficiently small' threshold that the run can reach: the test must use h at the USER's point
    for j in range(16 if tier == "quick" else 200):
        nn = int(rng.integers(1, 4))
        inst = dict(id=720000 + j, seed=int(rng.integers(0, 2 ** 31 - 1)), n=nn, m=nn + 1, prob="lin", reg="l1", lam=float(corpus._pick(rng, [0.1, 0.5, 1.0])), bounds="both", scaling=True,
                    bscale=float(corpus._pick(rng, [5.0, 20.0])), mag=float(corpus._pick(rng, [3.0, 10.0])), x0place=["in"] * nn, maxfun=40, timeout=300.0,
                    rel_tol=float(corpus._pick(rng, [0.3, 0.6, 0.9])))
        out.append(inst)
    # regulariser and a start with ZERO residual (a warm start at the unregularised fit): the objective there is h(x0), not small
    for j in range(12 if tier == "quick" else 150):
        nn = int(rng.integers(1, 4))
        inst = dict(id=730000 + j, seed=int(rng.integers(0, 2 ** 31 - 1)), n=nn, m=nn, prob="target", x0atmin=True, reg="l1", lam=float(corpus._pick(rng, [0.01, 0.1, 1.0])), maxfun=30,
                    rhoend=1e-3, timeout=300.0, tdist=float(corpus._pick(rng, [0.5, 5.0])))
        if j % 3 == 1:
            inst.update(bounds="both", bscale=20.0, scaling=True, x0place=["in"] * nn)
        elif j % 3 == 2:
            inst.update(nsamples="2")
        if j % 4 == 3:
            inst.update(abs_tol=float(corpus._pick(rng, [1e-6, 1e-3])))
        out.append(inst)
    # finite residuals whose squares overflow (every objective value is +inf): whatever the exit, it must not be reported as a success
    for j in range(12 if tier == "quick" else 120):
        inst = dict(id=710000 + j, seed=int(rng.integers(0, 2 ** 31 - 1)), n=int(rng.integers(1, 4)), m=3, prob=corpus._pick(rng, ["nl", "lin"]), rhoend=float(corpus._pick(rng, [1e-2, 1e-4])),
                    maxfun=60, rscale=float(corpus._pick(rng, [1e155, 1e160, 1e200])))
        if j % 3 == 1:
            inst.update(restarts="soft", maxunsucc=2)
        elif j % 3 == 2:
            inst.update(restarts=corpus._pick(rng, ["hard", "hardnew"]), maxunsucc=2)
        if j % 4 == 0:
            inst.update(noise=True)          # objfun_has_noise: restarts and the noise-level exit are on by default
        out.append(inst)
    # restart machinery live: eager auto-detection, noise, hard and soft restarts, the budget at every position
    AUTO = {"restarts.auto_detect.history": 3, "restarts.auto_detect.min_chgJ_slope": 0.0, "restarts.auto_detect.min_correl": 0.0}
    for bi, b in enumerate([dict(n=2, m=2, prob="ros", restarts="hard", maxunsucc=2, noise_sd=1e-2, rhoend=1e-8, user_params=dict(AUTO)),
                            dict(n=2, m=2, prob="ros", restarts="hardnew", maxunsucc=1, noise_sd=1e-2, rhoend=1e-8, user_params=dict(AUTO)),
                            dict(n=2, m=3, prob="nl", restarts="soft", maxunsucc=1, noise_sd=1e-2, rhoend=1e-8, user_params=dict(AUTO))]):
        b["seed"] = int(rng.integers(0, 2 ** 31 - 1))
        for mf in range(8, 100, 1 if (tier == "thorough" or bi == 2) else 3):      # soft restarts: every budget (a restart must be judged with 1, 2, 3 ... evaluations left)
            out.append(dict(b, id=700000 + 1000 * bi + mf, maxfun=mf))
    out += restart_trigger_class(rng, 780000, 36 if tier == "quick" else 480, diag=False)
    out += nan_site_sweep(rng, 790000, 4 if tier == "quick" else 1, diag=False, kmax=40 if tier == "quick" else 70)
    return out


def corpus_C11(tier):
    rng = _rng(11)
    n = 160 if tier == "quick" else 3000
    out = []
    for i in range(n):
        inst = corpus.general(rng, i + 1, allow=("bounds", "restarts", "npt", "diag", "avg"))
        inst["prob"] = corpus._pick(rng, ["lin", "nl", "nl"])
        inst["m"] = max(inst["m"], inst["n"])
        if i % 2 == 0:
            corpus.with_restarts(rng, inst)
            inst["rhoend"] = 1e-2
            inst["maxfun"] = int(rng.integers(40, 140))
        out.append(inst)
    # a reduced initial set (growing phase) on weakly sensitive residuals (|J| ~ 1e-7, below the growing phase's singular-value floor): once the set is
    # complete the returned Jacobian must be the plain fit again
    for j in range(12 if tier == "quick" else 150):
        nn = int(rng.integers(2, 5))
        inst = dict(id=930000 + j, seed=int(rng.integers(0, 2 ** 31 - 1)), n=nn, m=nn + int(rng.integers(0, 3)), prob="lin", growing=1, rhoend=1e-3, maxfun=int(rng.integers(3 * nn + 4, 12 * nn)))
        inst.update(dict(zerocol=True) if j % 2 == 0 else dict(ascale=float(corpus._pick(rng, [1e-7, 1e-8]))))
        if j % 3 == 0:
            inst.update(bounds="both", x0place=["in"] * nn)
        out.append(inst)
    for j in range(12 if tier == "quick" else 200):
        inst = dict(id=900000 + j, seed=int(rng.integers(0, 2 ** 31 - 1)), n=2, m=3, prob=corpus._pick(rng, ["lin", "nl"]), bounds="both", scaling=True, x0place=["in", "in"],
                    restarts="soft", maxunsucc=3, rhoend=1e-2, maxfun=int(rng.integers(35, 110)), diag=True, npt=corpus._pick(rng, ["n+1", "2n+1"]))
        out.append(inst)
    for j in range(16 if tier == "quick" else 200):
        # internal scaling with HARD restarts (both ways of obtaining the restart point's residual): a later run that improves hands over its Jacobian,
        # which must come back in the user's coordinates like the first run's
        inst = dict(id=920000 + j, seed=int(rng.integers(0, 2 ** 31 - 1)), n=2, m=2, prob="ros3", bounds="both", scaling=True, bscale=float(corpus._pick(rng, [2.0, 4.0])), x0place=["in", "in"],
                    restarts=corpus._pick(rng, ["hardnew", "hardnew", "hard"]), maxunsucc=3, rhoend=float(corpus._pick(rng, [1e-1, 3e-2, 1e-2])), maxfun=int(rng.integers(50, 160)))
        out.append(inst)
    for j in range(24 if tier == "quick" else 300):
        # reduced initial set that grows by new directions each iteration, x0 on several bounds, budget ending soon after the set is complete
        n = 3 if j % 3 else 2
        places = ["L"] * n
        places[int(rng.integers(0, n))] = corpus._pick(rng, ["in", "U"])
        inst = dict(id=910000 + j, seed=int(rng.integers(0, 2 ** 31 - 1)), n=n, m=n + 2, prob="nl", bounds="both", x0place=places, growing=1, rhobeg=0.5, rhoend=1e-3,
                    maxfun=int(corpus._pick(rng, [6, 8, 10, 14, 20])), user_params={"growing.num_new_dirns_each_iter": 1, "growing.do_geom_steps": bool(j % 4 == 0)})
        out.append(inst)
    return out


def corpus_C18(tier):
    rng = _rng(18)
    n = 160 if tier == "quick" else 3000
    out = []
    for i in range(n):
        inst = corpus.general(rng, i + 1)
        inst["diag"] = True
        if i % 3 == 0:
            corpus.with_restarts(rng, inst)
            inst["rhoend"] = 1e-2
            inst["maxfun"] = int(rng.integers(40, 140))
        if i % 8 == 0 and inst["n"] >= 2 and not inst.get("npt") and not inst.get("incnpt"):
            inst["growing"] = 1
            up = dict(inst.get("user_params") or {})
            up.update({"growing.reset_delta": True})
            if i % 16 == 0:
                up.update({"growing.reset_rho": True})
            inst["user_params"] = up
        out.append(inst)
    for j in range(8 if tier == "quick" else 120):
        n = int(rng.integers(1, 4))
        inst = dict(id=820000 + j, seed=int(rng.integers(0, 2 ** 31 - 1)), n=n, m=n + 1, prob="target1", x0atmin=True, restarts=corpus._pick(rng, ["soft", "soft", "hard"]), maxunsucc=3,
                    rhoend=1e-2, rhobeg=0.1, maxfun=int(rng.integers(15, 60)), diag=True, tdist=1.0)
        if j % 2:
            inst.update(bounds="both", x0place=["in"] * n)
        out.append(inst)
    for j in range(20 if tier == "quick" else 200):
        # an infinite / overflow-sized value enters the interpolation set mid-run: the fit fails and a soft restart follows (same run counter => rows of one run)
        inst = dict(id=830000 + j, seed=int(rng.integers(0, 2 ** 31 - 1)), n=2, m=2, prob="ros3", restarts="soft", maxunsucc=3, rhoend=1e-2, maxfun=80, diag=True,
                    fault=dict(k=int(rng.integers(4, 34)), kind=corpus._pick(rng, ["pinf", "huge"])))
        out.append(inst)
    # rhobeg less than twice rhoend: the very first reduction of rho lands within a factor alpha2 of rhoend (delta must not drop below the new rho)
    for j in range(12 if tier == "quick" else 150):
        re_ = float(corpus._pick(rng, [0.6, 0.05, 1e-3]))
        inst = dict(id=840000 + j, seed=int(rng.integers(0, 2 ** 31 - 1)), n=int(rng.integers(1, 4)), m=3, prob=corpus._pick(rng, ["nl", "lin", "ros3"]), rhoend=re_,
                    rhobeg=re_ * float(rng.uniform(1.05, 1.95)), maxfun=40, diag=True)
        if inst["prob"] == "ros3":
            inst.update(n=2, m=2)
        if j % 3 == 0:
            inst.update(restarts="soft", maxunsucc=2, maxfun=60)
        out.append(inst)
    # growing with several new directions per iteration, the number of missing points not a multiple of it: the set fills up in the middle of a batch
    for j in range(12 if tier == "quick" else 150):
        nn = int(rng.integers(4, 6))
        out.append(dict(id=870000 + j, seed=int(rng.integers(0, 2 ** 31 - 1)), n=nn, m=nn + int(rng.integers(0, 3)), prob=corpus._pick(rng, ["nl", "lin"]), growing=1, rhoend=1e-3,
                        maxfun=int(rng.integers(25, 70)), diag=True, user_params={"growing.num_new_dirns_each_iter": 2 if nn == 4 else 3}))
    # hard restarts that re-sample their start point, with the budget running out at every place (also while the restart point is being re-sampled)
    out += _sweeps(rng, [dict(n=2, m=2, prob="ros3", restarts="hardnew", maxunsucc=3, rhoend=1e-1, nsamples="3", diag=True)], tier, 880000, maxfun=150, quick_steps=75)
    # tr_radius.alpha1 far below its default (legal: any value in (0, 1)): alpha1 * rho must not take rho below rhoend
    for j in range(8 if tier == "quick" else 100):
        inst = dict(id=860000 + j, seed=int(rng.integers(0, 2 ** 31 - 1)), n=2, m=3, prob=corpus._pick(rng, ["nl", "ros3"]), rhobeg=float(corpus._pick(rng, [0.5, 0.3, 2.0])),
                    rhoend=1e-3, maxfun=80, diag=True, user_params={"tr_radius.alpha1": float(corpus._pick(rng, [1e-3, 2e-3, 1e-4]))})
        if inst["prob"] == "ros3":
            inst.update(m=2)
        out.append(inst)
    # as many (or more) regression steps after a successful iteration as there are points: the incumbent must survive them
    for j in range(12 if tier == "quick" else 150):
        nn = int(rng.integers(2, 4))
        inst = dict(id=850000 + j, seed=int(rng.integers(0, 2 ** 31 - 1)), n=nn, m=nn + 1, prob=corpus._pick(rng, ["nl", "ros3", "nl"]), rhoend=1e-3, maxfun=70, diag=True,
                    user_params={"regression.num_extra_steps": nn + 1 + int(rng.integers(0, 2))})
        if inst["prob"] == "ros3":
            inst.update(n=2, m=2, user_params={"regression.num_extra_steps": 3 + int(rng.integers(0, 2))})
        if j % 3 == 0:
            inst.update(restarts="hard", maxunsucc=3, rhoend=1e-2, maxfun=120,
                        user_params={"regression.num_extra_steps": 1, "regression.increase_num_extra_steps_with_restart": 1})
        out.append(inst)
    # the radius cap: a minimiser ~1e13 away makes delta grow by very successful steps until it reaches 1e10
    for j in range(4 if tier == "quick" else 40):
        out.append(dict(id=800000 + j, seed=int(rng.integers(0, 2 ** 31 - 1)), n=int(rng.integers(1, 4)), m=3, prob="lin", x0far=float(corpus._pick(rng, [1e12, 1e13, 1e15])),
                        rhobeg=1.0, rhoend=1e-6, maxfun=80, diag=True))
    # several soft restarts that add points in steps of 2 up to a cap that is not a multiple of the step
    for j in range(4 if tier == "quick" else 40):
        out.append(dict(id=810000 + j, seed=int(rng.integers(0, 2 ** 31 - 1)), n=3, m=4, prob="nl", restarts="soft", maxunsucc=4, incnpt=3, rhoend=1e-1, maxfun=150, diag=True,
                        user_params={"restarts.increase_npt_amt": 2}))
    out += restart_trigger_class(rng, 880000, 36 if tier == "quick" else 480)
    out += nan_site_sweep(rng, 890000, 2 if tier == "quick" else 1, kmax=40 if tier == "quick" else 70)
    return out


def corpus_C19(tier):
    """triples: reference run (generator state A), a run under state B, a run under state A after an unrelated solve"""
    rng = _rng(19)
    n = 50 if tier == "quick" else 1200
    out = []
    for i in range(n):
        r = i % 7
        inst = corpus.general(rng, 3 * i + 1, allow=("bounds", "npt", "diag", "small"))
        inst["m"] = max(inst["m"], inst["n"])   # m < n switches on a documented random option (perturbed step)
        if r == 1:
            corpus.with_bounds(rng, inst)
        elif r == 2:
            inst = corpus.proj_inst(rng, 3 * i + 1)
            inst.pop("restarts", None)
            inst.pop("incnpt", None)
        elif r == 3:
            inst["npt"] = corpus._pick(rng, ["2n+1", "full", "full"])   # 'full' = (n+1)(n+2)/2: the largest count with the deterministic initialisation
        elif r == 4 and not inst.get("scaling"):
            inst.update(reg="l1", prob="lin", timeout=200.0, maxfun=20)
        elif r == 5:
            inst.update(nsamples="2")
        elif r == 6:
            inst.update(restarts=corpus._pick(rng, ["soft", "hard"]), maxunsucc=2, rhoend=1e-2, maxfun=90, prob="ros3", n=2, m=2)
        if i % 3 == 0:
            # the slow-progress test is live (few slow iterations end the run) and the per-iteration table is observed
            inst["diag"] = True
            inst["user_params"] = dict(inst.get("user_params") or {}, **{"slow.max_slow_iters": int(rng.integers(2, 6)), "slow.thresh_for_slow": float(corpus._pick(rng, [1e-8, 1e-2, 1e-1]))})
        inst.pop("growing", None)
        inst.pop("incnpt", None)
        up = dict(inst.get("user_params") or {})
        up.pop("regression.momentum_extra_steps", None)
        inst["user_params"] = up
        a = dict(inst, id=3 * i + 1, rng_state=12345)
        b = dict(inst, id=3 * i + 2, rng_state=987654321, refid=3 * i + 1)
        c = dict(inst, id=3 * i + 3, rng_state=12345, refid=3 * i + 1, warm=True)
        out += [a, b, c]
    extra = []
    for j in range(12 if tier == "quick" else 200):
        # a reduced initial set with the default growing method for m >= n (full-rank interpolation; not documented as random), m == n and m > n
        nn = int(rng.integers(2, 5))
        extra.append(dict(corpus.base(rng, 0, prob=corpus._pick(rng, ["nl", "lin"]), n=nn), m=nn + int(rng.integers(0, 2)), growing=int(rng.integers(1, nn)), maxfun=int(rng.integers(15, 45))))
    for j in range(10 if tier == "quick" else 150):
        # soft restarts with restarts.max_npt raised but restarts.increase_npt left off: no points may be added
        nn = int(rng.integers(2, 4))
        extra.append(dict(corpus.base(rng, 0, prob=corpus._pick(rng, ["nl", "ros3"]), n=nn), restarts="soft", maxunsucc=3, rhoend=1e-2, maxfun=int(rng.integers(60, 120)),
                          user_params={"restarts.max_npt": nn + 1 + int(rng.integers(1, 4))}))
    for inst in extra:
        if inst["prob"] == "ros3":
            inst.update(n=2, m=2, user_params={"restarts.max_npt": 3 + 2})
        inst["m"] = max(inst["m"], inst["n"])
        i = len(out) // 3
        out += [dict(inst, id=3 * i + 1, rng_state=12345), dict(inst, id=3 * i + 2, rng_state=987654321, refid=3 * i + 1),
                dict(inst, id=3 * i + 3, rng_state=12345, refid=3 * i + 1, warm=True)]
    return out
