"""Entry point:  bin/check <Cxx> [--tier quick|thorough] [--replay <file>]

exit 0: the property held on everything explored (KNOWN-FINDING lines may be printed)
exit 1: at least one violation not listed in known_findings.json (one 'VIOLATION property=<id> replay=<path>' line each)
exit 2: the machinery itself failed (never a verdict)
"""
import argparse
import json
import os
import sys
import time
import traceback

sys.path.insert(0, os.path.dirname(os.path.dirname(os.path.abspath(__file__))))
from harness import vlib  # noqa: E402


def solver_level(prop, tier, level, corpus_fn, with_model=True, with_liveness=False, extra_assume=(), text="", with_replay=False):
    from harness import solverchecks as sc
    V = vlib.Verdict(prop, tier)
    wd = vlib.scratch()
    cov = {}
    if with_model:
        cov.update(sc.model_part(prop, tier, V, os.path.join(wd, "model"), with_liveness=with_liveness))
    if with_replay:
        from harness import replay_solve as rs
        cov.update(rs.replay_part(prop, tier, V, os.path.join(wd, "replay")))
    insts = corpus_fn(tier)
    tcov, _ = sc.trace_part(prop, insts, V, os.path.join(wd, "traces"))
    cov.update(tcov)
    cov["rule"] = sc.rule_text(prop)
    if tier == "thorough" and prop in ("C03", "C19"):
        from harness import selftest
        cov["binding_selftest"] = selftest.run()      # corrupted traces must be rejected (machinery failure otherwise)
    if not with_model:
        cov.setdefault("states", cov.get("trace_states", 0))
        cov.setdefault("transitions", cov.get("trace_states", 0))
    cov["explanation"] = text
    return V.finish(cov, level, list(sc.ASSUME) + list(extra_assume))


def run_property(prop, tier):
    from harness import solverchecks as sc
    if prop == "C01":
        from harness import c01
        return c01.run(tier)
    if prop == "C02":
        from harness import c02
        return c02.run(tier)
    if prop == "C03":
        return solver_level("C03", tier, "model_checking", sc.corpus_C03, with_replay=True)
    if prop == "C04":
        return solver_level("C04", tier, "model_checking", sc.corpus_C04, with_replay=True)
    if prop == "C08":
        return solver_level("C08", tier, "model_checking", sc.corpus_C08, with_replay=True)
    if prop == "C09":
        return solver_level("C09", tier, "model_checking", sc.corpus_C09, with_model=False)
    if prop == "C10":
        return solver_level("C10", tier, "model_checking", sc.corpus_C10, with_replay=True, with_liveness=True)
    if prop == "C11":
        return solver_level("C11", tier, "model_checking", sc.corpus_C11)
    if prop == "C18":
        from harness import c18
        return c18.run(tier)
    if prop == "C19":
        from harness import c19
        return c19.run(tier)
    mods = {"C05": "c05", "C06": "c06", "C07": "c07", "C12": "c12", "C13": "c13", "C14": "c14", "C15": "c15", "C16": "c16", "C17": "c17", "C20": "c20"}
    if prop in mods:
        import importlib
        return importlib.import_module("harness." + mods[prop]).run(tier)
    raise vlib.MachineryError("unknown property %s" % prop)


def replay(path):
    from harness import replay as rp
    return rp.replay(path)


def main():
    ap = argparse.ArgumentParser()
    ap.add_argument("prop")
    ap.add_argument("--tier", default=os.environ.get("VERIF_TIER", "quick"), choices=["quick", "thorough"])
    ap.add_argument("--replay", default=None)
    a = ap.parse_args()
    os.environ.pop("PYTHONHASHSEED", None)
    try:
        vlib.import_dfols()
        if a.replay:
            rc = replay(a.replay)
        else:
            t0 = time.time()
            rc = run_property(a.prop, a.tier)
            print("check %s tier=%s seed=%d finished rc=%d in %.1fs; evidence: %s" % (a.prop, a.tier, vlib.seed(), rc, time.time() - t0,
                                                                                  os.path.join(vlib.VERIF, "evidence", a.prop + ".json")))
        sys.exit(rc)
    except vlib.MachineryError as e:
        print("MACHINERY FAILURE (no verdict): %s" % e, file=sys.stderr)
        sys.exit(2)
    except SystemExit:
        raise
    except BaseException:  # noqa
        traceback.print_exc()
        print("MACHINERY FAILURE (no verdict): unexpected exception in the harness", file=sys.stderr)
        sys.exit(2)


if __name__ == "__main__":
    main()
