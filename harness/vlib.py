"""Shared infrastructure for the dfols verification harness (see DESIGN.md sections 4 and 7).

Everything here is machinery: locating /repo, scratch directories, running TLC, writing evidence files,
turning violation records into VIOLATION / KNOWN-FINDING lines.  No verdict logic lives here.
"""
import atexit, json, os, re, shutil, subprocess, sys, tempfile, time

VERIF = os.path.dirname(os.path.dirname(os.path.abspath(__file__)))
REPO = os.environ.get("DFOLS_REPO", "/repo")
SPEC = os.path.join(VERIF, "spec")
PY = "/venv/bin/python"
TLA_CP = "/opt/veriftools/tla/tla2tools.jar:/opt/veriftools/tla/CommunityModules-deps.jar"
GUARD = "DFOLS_VERIF"
NCPU = os.cpu_count() or 4


class MachineryError(Exception):
    """A failure of the verification machinery itself (exit code 2, never a verdict)."""


def seed():
    try:
        return int(os.environ.get("VERIF_SEED", "0"))
    except ValueError:
        return 0


_scratch_dirs = []


def scratch(prefix="dfv_"):
    d = tempfile.mkdtemp(prefix=prefix)
    _scratch_dirs.append(d)
    return d


def _cleanup():
    for d in _scratch_dirs:
        shutil.rmtree(d, ignore_errors=True)


atexit.register(_cleanup)


def import_dfols():
    """Import dfols from /repo's *current working tree* (never a stale copy)."""
    if REPO not in sys.path:
        sys.path.insert(0, REPO)
    import dfols
    here = os.path.realpath(os.path.dirname(dfols.__file__))
    want = os.path.realpath(os.path.join(REPO, "dfols"))
    if here != want:
        raise MachineryError("dfols imported from %s, expected %s" % (here, want))
    return dfols


# --------------------------------------------------------------------------------------------- TLC

_RE_STATES = re.compile(r"(\d+) states generated, (\d+) distinct states found")


def run_tlc(module, cfg, workdir, workers=None, timeout=1500, heap="3g", simulate=None, depth=None,
            extra=(), env=None, deadlock=False, dfs=False, coverage=False, seed_=None):
    """Run TLC on spec file `module` (absolute path or name under spec/) with config `cfg`.

    The module and every spec/*.tla are copied into `workdir` so that TLC's output files never land in /verif.
    Returns dict(out=str, generated=int, distinct=int, ok=bool, violated=[names], rc=int, wall=float).
    ok means: TLC finished and reported no error.  A property violation is NOT a machinery failure."""
    os.makedirs(workdir, exist_ok=True)
    for f in os.listdir(SPEC):
        if f.endswith(".tla"):
            shutil.copy(os.path.join(SPEC, f), workdir)
    if os.path.isabs(module):
        shutil.copy(module, workdir)
    modname = os.path.basename(module)
    src_cfg = cfg if (os.path.isabs(cfg) or os.path.exists(cfg)) else os.path.join(SPEC, cfg)
    dst_cfg = os.path.join(workdir, os.path.basename(cfg))
    if os.path.realpath(src_cfg) != os.path.realpath(dst_cfg):
        shutil.copy(src_cfg, dst_cfg)
    cfgname = os.path.basename(cfg)
    jopts = ["-XX:+UseParallelGC", "-Xmx" + heap]
    if dfs:
        jopts.append("-Dtlc2.tool.queue.IStateQueue=StateDeque")
    cmd = ["java"] + jopts + ["-cp", TLA_CP, "tlc2.TLC", "-workers", str(workers or min(NCPU, 16)),
                              "-metadir", os.path.join(workdir, "meta_" + cfgname), "-noGenerateSpecTE", "-config", cfgname]
    if not deadlock:
        cmd.append("-deadlock")
    if coverage:
        cmd += ["-coverage", "1"]
    if simulate is not None:
        cmd += ["-simulate", simulate]
        if depth:
            cmd += ["-depth", str(depth)]
    if seed_ is not None:
        cmd += ["-seed", str(seed_)]
    cmd += list(extra) + [modname]
    e = dict(os.environ)
    if env:
        e.update(env)
    t0 = time.time()
    try:
        p = subprocess.run(cmd, cwd=workdir, env=e, stdout=subprocess.PIPE, stderr=subprocess.STDOUT, timeout=timeout, text=True)
        out, rc = p.stdout, p.returncode
    except subprocess.TimeoutExpired as ex:
        out = (ex.stdout or b"").decode("utf8", "replace") if isinstance(ex.stdout, bytes) else (ex.stdout or "")
        rc = -9
    wall = time.time() - t0
    gen = dist = 0
    for m in _RE_STATES.finditer(out):
        gen, dist = int(m.group(1)), int(m.group(2))
    if simulate is not None:
        m = re.search(r"(\d+) states checked", out)
        if m:
            gen = dist = int(m.group(1))
    violated = re.findall(r"Invariant (\w+) is violated", out) + re.findall(r"Action property (\w+) is violated", out)
    violated += re.findall(r"Temporal property (\w+) was violated", out)
    if "Temporal properties were violated" in out and not violated:
        violated.append("TEMPORAL")
    if re.search(r"The postcondition .* is violated|Postcondition .* violated|Evaluating assumption", out):
        pass
    finished = ("Model checking completed. No error has been found" in out) or (simulate is not None and rc in (0, -9) and not violated and "Error:" not in out)
    return dict(out=out, generated=gen, distinct=dist, ok=finished, violated=violated, rc=rc, wall=wall, cmd=" ".join(cmd))


def tlc_machinery_check(res, what):
    """Raise MachineryError when TLC did not run to completion for a reason other than a reported property violation."""
    if res["ok"] or res["violated"]:
        return
    tail = "\n".join(res["out"].splitlines()[-40:])
    raise MachineryError("TLC failed on %s (rc=%s):\n%s" % (what, res["rc"], tail))


# --------------------------------------------------------------------------- TLC value parsing (PrintT output)

def parse_tla_value(s):
    """Parse a printed TLA+ value made of <<...>>, {...}, [k |-> v], strings, ints, TRUE/FALSE into Python objects."""
    pos = [0]

    def ws():
        while pos[0] < len(s) and s[pos[0]] in " \t\r\n":
            pos[0] += 1

    def val():
        ws()
        c = s[pos[0]]
        if s.startswith("<<", pos[0]):
            pos[0] += 2
            items = []
            ws()
            while not s.startswith(">>", pos[0]):
                items.append(val())
                ws()
                if s[pos[0]] == ",":
                    pos[0] += 1
                ws()
            pos[0] += 2
            return items
        if c == "{":
            pos[0] += 1
            items = []
            ws()
            while s[pos[0]] != "}":
                items.append(val())
                ws()
                if s[pos[0]] == ",":
                    pos[0] += 1
                ws()
            pos[0] += 1
            return items
        if c == "[":
            pos[0] += 1
            d = {}
            ws()
            while s[pos[0]] != "]":
                m = re.match(r"\s*(\w+)\s*\|->", s[pos[0]:])
                if not m:
                    raise ValueError("bad record at %d: %r" % (pos[0], s[pos[0]:pos[0] + 40]))
                pos[0] += m.end()
                d[m.group(1)] = val()
                ws()
                if s[pos[0]] == ",":
                    pos[0] += 1
                ws()
            pos[0] += 1
            return d
        if c == '"':
            j = pos[0] + 1
            buf = []
            while s[j] != '"':
                if s[j] == "\\":
                    j += 1
                buf.append(s[j])
                j += 1
            pos[0] = j + 1
            return "".join(buf)
        m = re.match(r"-?\d+", s[pos[0]:])
        if m:
            pos[0] += m.end()
            return int(m.group(0))
        m = re.match(r"TRUE|FALSE", s[pos[0]:])
        if m:
            pos[0] += m.end()
            return m.group(0) == "TRUE"
        m = re.match(r"\w+", s[pos[0]:])
        if m:
            pos[0] += m.end()
            return m.group(0)
        raise ValueError("cannot parse at %d: %r" % (pos[0], s[pos[0]:pos[0] + 40]))

    return val()


def extract_printed(out, tag):
    """All values printed by PrintT(<<"tag", ...>>) in TLC output `out` (bracket matching; robust to line wrapping)."""
    res = []
    pat = re.compile(r'<<\s*"%s"' % re.escape(tag))
    i = 0
    while True:
        mm = pat.search(out, i)
        if not mm:
            break
        i = mm.start()
        depth = 0
        j = i
        instr = False
        while j < len(out):
            if instr:
                if out[j] == "\\":
                    j += 1
                elif out[j] == '"':
                    instr = False
            elif out[j] == '"':
                instr = True
            elif out.startswith("<<", j):
                depth += 1
                j += 1
            elif out.startswith(">>", j):
                depth -= 1
                j += 1
                if depth == 0:
                    break
            j += 1
        res.append(parse_tla_value(out[i:j + 1]))
        i = j + 1
    return res


# evidence and replay files go to /verif unless a run against a CHANGED tree (seeded changes, tools/verify_mutant.sh) redirects them
OUT = os.environ.get("DFOLS_VERIF_OUT") or VERIF

# ----------------------------------------------------------------------------- verdicts and evidence

def load_known_findings():
    p = os.path.join(VERIF, "known_findings.json")
    if not os.path.exists(p):
        return []
    return json.load(open(p))["findings"]


class Verdict(object):
    """Collects violation records for one property; matches them against known_findings.json; prints the
    interface lines; decides the exit code.  A violation record is a dict with at least 'clause' and 'what';
    optional 'site', 'cls' (configuration class) and 'instance' (what is needed to replay it)."""

    def __init__(self, prop, tier):
        self.prop, self.tier = prop, tier
        self.violations, self.known_hits = [], {}
        self.known = [k for k in load_known_findings() if k["status"] == "known" and (k["property"] == prop or (k["property"] == "*" and prop in k.get("properties", [prop])))]
        self.t0 = time.time()
        self.nreplay = 0

    def _match(self, v):
        for k in self.known:
            if all(str(v.get(f)) == str(val) for f, val in k["match"].items()):
                return k
        return None

    def report(self, v):
        k = self._match(v)
        if k is not None:
            self.known_hits.setdefault(k["id"], [k, 0])[1] += 1
            return False
        self.violations.append(v)
        return True

    def finish(self, coverage, level, assumptions):
        for kid, (k, cnt) in sorted(self.known_hits.items()):
            print("KNOWN-FINDING: property=%s %s [%s; seen %d time(s) in this run]" % (self.prop, k["what"], kid, cnt))
        # known findings that the run was expected to exhibit but did not are only noted in the evidence file
        os.makedirs(os.path.join(OUT, "replays"), exist_ok=True)
        seen = set()
        for v in self.violations:
            key = (v.get("clause"), v.get("site"), v.get("cls"))
            if key in seen and len(seen) > 0 and self.nreplay >= 25:
                continue
            seen.add(key)
            if self.nreplay < 25:
                self.nreplay += 1
                path = os.path.join(OUT, "replays", "%s_%s_%d.json" % (self.prop, self.tier, self.nreplay))
                with open(path, "w") as f:
                    json.dump(dict(property=self.prop, seed=seed(), violation=v), f, indent=1, default=str)
                print("VIOLATION property=%s replay=%s  clause=%s %s" % (self.prop, path, v.get("clause"), str(v.get("what", ""))[:300]))
        coverage = dict(coverage)
        coverage["known_findings_seen"] = {kid: cnt for kid, (k, cnt) in self.known_hits.items()}
        write_evidence(self.prop, self.tier, level, coverage, assumptions, time.time() - self.t0, len(self.violations))
        return 1 if self.violations else 0


def write_evidence(prop, tier, level, coverage, assumptions, wall, nviol):
    os.makedirs(os.path.join(OUT, "evidence"), exist_ok=True)
    ev = dict(property_id=prop, tier=tier, seed=seed(), level=level, coverage=coverage,
              assumptions=list(assumptions), wall_s=round(float(wall), 2), violations=int(nviol))
    tmp = os.path.join(OUT, "evidence", prop + ".json.tmp")
    with open(tmp, "w") as f:
        json.dump(ev, f, indent=1, default=str)
    os.replace(tmp, os.path.join(OUT, "evidence", prop + ".json"))


def pmap(fn_name, module, items, nproc=None, chunk=None):
    """Run module.fn_name over items in worker processes (fresh interpreters, so monkey-patching stays local)."""
    import multiprocessing as mp
    nproc = nproc or min(NCPU, 16)
    ctx = mp.get_context("fork")
    with ctx.Pool(nproc) as pool:
        return pool.map(_call, [(module, fn_name, it) for it in items], chunksize=chunk or max(1, len(items) // (nproc * 4) or 1))


def _call(a):
    module, fn_name, it = a
    import importlib
    m = importlib.import_module(module)
    return getattr(m, fn_name)(it)
