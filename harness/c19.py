"""C19 - results are reproducible and caller data are never modified.

  T  whole-solver triples (reference run / other generator state / after an unrelated solve in the same process), every instance in a process of its own,
     compared event for event on raw-event digests by the trace specification (clause identical_to_reference_run); caller data: rt_inputs_unchanged.
  M  ConvexInit.tla: the convex-constrained initialisation as a state machine with the generator's choices nondeterministic; TLC decides for which
     placements of x0 the random repair phases are unreachable (DetSufficient / DetUnique) and enumerates every set the machine can produce.
  R  spec -> code: every initial state of ConvexInit.tla is realised on the real dfols.solve (dyadic data, a table projector that reproduces the state's
     projected coordinate steps) under two generator states and after an unrelated solve; where the specification says the random phases are
     unreachable the evaluation sequences must be bit-identical (C19).  The predicted points themselves are compared too; a mismatch there is a
     conformance note (the specification no longer describes the code), not a violation of C19.
"""
import json
import os
import warnings

import numpy as np

from . import vlib

S = 0.5            # min(1, rhobeg) with rhobeg = 0.5
U = S / 2.0        # one lattice unit
RANDOM_ROW = 99


def tlc_convexinit(wd, maxn, rounds, stale=True, invs=("TypeOK", "DetSufficient", "DetUnique", "DoneFullRank", "Phase2Futile", "EmitInv")):
    os.makedirs(wd, exist_ok=True)
    cfg = os.path.join(wd, "ConvexInit.cfg")
    with open(cfg, "w") as f:
        f.write("SPECIFICATION Spec\nCONSTANTS\n  MaxN = %d\n  Rounds = %d\n  StaleRank = %s\n" % (maxn, rounds, "TRUE" if stale else "FALSE")
                + "".join("INVARIANT %s\n" % i for i in invs) + "PROPERTY Terminates\nCHECK_DEADLOCK FALSE\n")
    r = vlib.run_tlc("ConvexInit.tla", cfg, os.path.join(wd, "ci"), workers=4, heap="4g", timeout=2400)
    predict, final = [], {}
    for line in r["out"].splitlines():
        line = line.strip()
        if line.startswith('"PREDICT'):
            predict.append(json.loads(json.loads(line)[len("PREDICT"):]))
        elif line.startswith('"FINAL'):
            d = json.loads(json.loads(line)[len("FINAL"):])
            final.setdefault((d["n"], tuple(d["plus"]), tuple(d["minus"])), set()).add(tuple(d["dirs"]))
    return predict, final, r


def _run_once(dfols, st, x0, A, rng_state, warm):
    n = st["n"]
    table = {}
    for k in range(n):
        e = np.zeros(n)
        e[k] = 1.0
        table[tuple((x0 + S * e).tolist())] = x0 + st["plus"][k] * U * e
        table[tuple((x0 - S * e).tolist())] = x0 - st["minus"][k] * U * e

    def P(w):
        v = table.get(tuple(np.asarray(w, dtype=float).tolist()))
        return np.array(w, dtype=float, copy=True) if v is None else v.copy()
    calls = []

    def f(x):
        calls.append(np.array(x, dtype=float, copy=True))
        return A @ (x - x0) + 1.0 + np.arange(A.shape[0])
    if warm:
        np.random.seed(4242)
        with warnings.catch_warnings():
            warnings.simplefilter("ignore")
            dfols.solve(lambda x: np.array([10.0 * (x[1] - x[0] ** 2), 1.0 - x[0]]), np.array([-1.2, 1.0]), maxfun=12)
    np.random.seed(rng_state)
    exc = None
    try:
        with warnings.catch_warnings(), np.errstate(all="ignore"):
            warnings.simplefilter("ignore")
            dfols.solve(f, x0.copy(), projections=[P], rhobeg=0.5, rhoend=1e-6, maxfun=n + 1)
    except Exception as e:  # noqa
        exc = "%s: %s" % (type(e).__name__, str(e)[:80])
    return calls[:n + 1], exc


def replay_states(args):
    states, finals, seed = args
    dfols = vlib.import_dfols()
    rng = np.random.default_rng([seed, 19])
    bad, notes = [], []
    nrun = 0
    for st in states:
        n = st["n"]
        x0 = np.round(rng.normal(size=n) * 4.0) / 8.0
        A = rng.normal(size=(n + 1, n))
        runs = [_run_once(dfols, st, x0, A, 12345, False), _run_once(dfols, st, x0, A, 987654321, False), _run_once(dfols, st, x0, A, 12345, True)]
        nrun += 3
        ref = runs[0]
        same = all(r[1] == ref[1] and len(r[0]) == len(ref[0]) and all(np.array_equal(a, b) for a, b in zip(r[0], ref[0])) for r in runs[1:])
        if not same:
            which = [i for i, r in enumerate(runs[1:]) if not (r[1] == ref[1] and len(r[0]) == len(ref[0]) and all(np.array_equal(a, b) for a, b in zip(r[0], ref[0])))]
            bad.append(dict(state=st, clause="convexinit_independent_of_generator", cls=st["class"],
                            what="convex-constrained initialisation (plus %s, minus %s; %s): the first %d evaluation points differ %s"
                                 % (st["plus"], st["minus"], st["class"], n + 1, " and ".join(["under another generator state", "after an unrelated solve"][i] for i in which))))
        # conformance of the prediction (notes only)
        calls, exc = ref
        if exc is not None:
            notes.append(dict(state=st, what="solve raised %s" % exc))
            continue
        if len(calls) != n + 1 or not np.array_equal(calls[0], x0):
            notes.append(dict(state=st, what="%d evaluations / first point %s" % (len(calls), calls[0].tolist() if calls else None)))
            continue
        obs = []
        for k in range(n):
            d = (calls[k + 1] - x0) / U
            e = np.zeros(n)
            e[k] = d[k]
            obs.append(int(d[k]) if (np.array_equal(d, e) and float(d[k]).is_integer()) else RANDOM_ROW)
        if st["class"] != "random_needed":
            if obs != list(st["dirs"]):
                notes.append(dict(state=st, what="evaluated directions %s, specification predicts %s" % (obs, st["dirs"])))
        else:
            allowed = finals.get((n, tuple(st["plus"]), tuple(st["minus"])), set())
            if tuple(obs) not in allowed:
                notes.append(dict(state=st, what="evaluated directions %s are not among the %d sets the specification can produce" % (obs, len(allowed))))
    return nrun, bad, notes


def convexinit_part(tier, V, wd):
    import multiprocessing as mp
    maxn = 3 if tier == "quick" else 4
    predict, finals, r = tlc_convexinit(wd, maxn, 12 if tier == "quick" else 20)
    vlib.tlc_machinery_check(r, "ConvexInit.tla")
    for v in r["violated"]:
        V.report(dict(clause=v, site="ConvexInit.tla", cls="model", what="TLC: %s violated in ConvexInit.tla" % v, instance=dict(kind="model", module="ConvexInit.tla")))
    if not predict:
        raise vlib.MachineryError("ConvexInit.tla printed no PREDICT records")
    # sensitivity (thorough): with the rank variable as the code has it, TLC must exhibit the generator-dependent sign flips; with it repaired, not
    sens = None
    if tier == "thorough":
        _, _, r1 = tlc_convexinit(os.path.join(wd, "s1"), 3, 12, stale=True, invs=("RandomOnlyWhereUnusable",))
        _, _, r2 = tlc_convexinit(os.path.join(wd, "s2"), 3, 12, stale=False, invs=("RandomOnlyWhereUnusable",))
        if "RandomOnlyWhereUnusable" not in r1["violated"] or r2["violated"]:
            raise vlib.MachineryError("ConvexInit.tla sensitivity: StaleRank TRUE/FALSE gave %s / %s" % (r1["violated"], r2["violated"]))
        sens = dict(flag="StaleRank", expected="RandomOnlyWhereUnusable", detected=True)
    nch = 32
    chunks = [(predict[i::nch], finals, vlib.seed()) for i in range(nch) if predict[i::nch]]
    ctx = mp.get_context("fork")
    with ctx.Pool(min(16, vlib.NCPU), maxtasksperchild=1) as pool:
        outs = pool.map(replay_states, chunks, chunksize=1)
    nrun = sum(o[0] for o in outs)
    notes = [x for o in outs for x in o[2]]
    seen = {}
    for o in outs:
        for b in o[1]:
            key = (b["clause"], b["cls"])
            seen[key] = seen.get(key, 0) + 1
            if seen[key] > 12:
                continue          # a dozen replay files per class are enough
            V.report(dict(clause=b["clause"], site="convex_init", cls=b["cls"], hasproj="yes", initrepair=b["cls"], what=b["what"], instance=dict(kind="convexinit_state", state=b["state"])))
    for nt in notes[:5]:
        print("NOTE: ConvexInit.tla does not predict the code here (conformance, not a C19 verdict): %s %s" % (json.dumps({k: nt["state"][k] for k in ("n", "plus", "minus", "class")}), nt["what"]))
    classes = {}
    for p in predict:
        classes[p["class"]] = classes.get(p["class"], 0) + 1
    return dict(convexinit=dict(states=r["distinct"], transitions=r["generated"], initial_states=len(predict), classes=classes, real_solves=nrun,
                                final_sets=sum(len(v) for v in finals.values()), conformance_mismatches=len(notes),
                                conformance_samples=[dict(state=n_["state"], what=n_["what"]) for n_ in notes[:3]], sensitivity=sens))


def run(tier):
    from . import solverchecks as sc
    V = vlib.Verdict("C19", tier)
    wd = vlib.scratch()
    cov = convexinit_part(tier, V, os.path.join(wd, "convexinit"))
    insts = sc.corpus_C19(tier)
    tcov, _ = sc.trace_part("C19", insts, V, os.path.join(wd, "traces"))
    cov.update(tcov)
    cov["rule"] = sc.rule_text("C19") + "; convex-constrained initialisation: every initial state of ConvexInit.tla (n <= %d, each projected coordinate step collapsed / cut short / full) replayed three times" % (3 if tier == "quick" else 4)
    cov["states"] = cov["convexinit"]["states"] + cov.get("trace_states", 0)
    cov["transitions"] = cov["convexinit"]["transitions"] + cov.get("trace_states", 0)
    cov["traces_validated_against_impl"] = cov.get("traces_validated_against_impl", 0) + cov["convexinit"]["initial_states"]
    if tier == "thorough":
        from . import selftest
        cov["binding_selftest"] = selftest.run()
    return V.finish(cov, "model_checking", list(sc.ASSUME) + ["convex-init replay: the table projector reproduces the state's projected coordinate steps and is the identity elsewhere; "
                                                               "each run stops after the n+1 initial evaluations (maxfun = n+1)"])
