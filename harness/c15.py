"""C15 - Dykstra's projection is feasible, near-optimal and respects its stopping rule.

  M  Dykstra.tla: sweep/step machine (cyclic order, stop only at a sweep boundary, stop rule, sweep cap, result = last projector's output),
     model-checked for P <= 4 projectors and MaxIter <= 3, with termination.
  T  direct calls of the real dfols.util.dykstra on random intersections of up to 4 balls / half-spaces / boxes (dimension 1..6, common interior
     point, starts near and far, default and user tolerances).  The projectors are the harness's own, so every internal step is observed; the
     recorder recomputes the corrections and the stopping quantity bit-for-bit, the trace specification (DfolsTrace.tla, action Dyk) decides
     "stopped by rule" vs "ran out of sweeps" and requires, when stopped by rule: within sqrt(p*tol) of every set; within 1e-3 of a reference
     projection (same algorithm, tol 1e-28, 2*10^5 sweeps); always: feasible input returned unchanged (1e-12), last set a box => exactly inside,
     at most max_iter sweeps.
"""
import math
import os

import numpy as np

from . import vlib, recorder, strace, modelcheck as mc


def ref_dykstra(P, x0, sweeps=200000, tol=1e-28):
    x = x0.copy()
    p = len(P)
    y = np.zeros((p, len(x0)))
    for _ in range(sweeps):
        c = 0.0
        for i in range(p):
            prev = x.copy()
            x = P[i](prev - y[i])
            py = y[i].copy()
            y[i] = x - (prev - py)
            c += float(np.linalg.norm(py - y[i]) ** 2)
        if c < tol:
            break
    return x


def c15_trace(inst):
    try:
        return _c15_trace(inst)
    except recorder.WrapperError as e:
        return dict(machinery="dykstra driver failed on %s: %s" % (inst.get("id"), e))


def _c15_trace(inst):
    from . import problems
    vlib.import_dfols()
    import dfols.util as U
    rng = np.random.default_rng([int(inst["seed"]) & 0x7FFFFFFF, 15])
    n = inst["n"]
    c = rng.normal(size=n) * float(inst["mag"])
    pinst = dict(seed=inst["seed"], proj=inst["sets"])
    sets = problems.make_sets(pinst, c)
    P = dict(resid=None, kwargs={}, x0=None, lo=None, hi=None, sets=sets, hval=lambda x: 0.0, A=None, b=None, c=c, n=n, m=1, lam=0.0, reg="none", noise=0.0)
    run = recorder.Run(dict(inst, user_params={"dykstra.d_tol": inst["tol"]}), P)
    ev = []
    projs = [s["proj"] for s in sets]
    if inst.get("alias"):
        # projectors written the usual way: a point that is already in the set is handed back AS IS (the same array object, no copy)
        projs = [(lambda w, f=s["proj"], dist=s["dist"]: w if dist(w) == 0.0 else f(w)) for s in sets]
    for rep in range(inst["reps"]):
        kind = ["near", "far", "inside", "slight"][rep % 4]
        d = rng.normal(size=n)
        d /= np.linalg.norm(d)
        if kind == "near":
            x0 = c + d * rng.uniform(0.5, 3.0)
        elif kind == "far":
            x0 = c + d * rng.uniform(5.0, 50.0) * max(1.0, float(inst["mag"]) ** 0.5)
        elif kind == "inside":
            x0 = c + d * rng.uniform(0.0, 0.25)
        else:
            x0 = ref_dykstra(projs, c + d * 4.0, sweeps=2000, tol=1e-24) + d * float(rng.choice([1e-12, 1e-9, 1e-7, 1e-5]))
        log = []

        def wrap(i, f):
            def g(w):
                out = f(w)
                log.append((i, np.array(w, dtype=float, copy=True), np.array(out, dtype=float, copy=True)))
                return out
            return g
        tol, maxit = float(inst["tol"]), int(inst["maxiter"])
        res = U.dykstra([wrap(i, f) for i, f in enumerate(projs)], x0.copy(), max_iter=maxit, tol=tol)
        p = len(projs)
        x = x0.copy()
        y = np.zeros((p, n))
        order_ok = in_ok = True
        sweeps, below, idx = 0, [], 0
        while idx + p <= len(log):
            cI = 0
            for i in range(p):
                li, win, wout = log[idx + i]
                order_ok = order_ok and li == i
                prev_x = x.copy()
                in_ok = in_ok and bool(np.array_equal(win, prev_x - y[i, :]))
                x = wout
                prev_y = y[i, :].copy()
                y[i, :] = x - (prev_x - prev_y)
                cI += np.linalg.norm(prev_y - y[i, :]) ** 2
            idx += p
            sweeps += 1
            below.append(bool(cI < tol))
        res = np.asarray(res, dtype=float)
        dmax = max(s["dist"](res) for s in sets)
        feas = "ok" if dmax <= math.sqrt(p * tol) else "viol"
        ref = ref_dykstra(projs, x0)
        refok = bool(np.linalg.norm(res - ref) <= 1e-3)
        infeas0 = max(s["dist"](x0) for s in sets)
        idemok = True
        if infeas0 == 0.0:
            idemok = bool(np.max(np.abs(res - x0)) <= 1e-12 * max(1.0, float(np.max(np.abs(x0)))))
        lastboxok = True
        if sets[-1]["kind"] == "box":
            lastboxok = bool(sets[-1]["dist"](res) == 0.0)
        ev.append(dict(ev="Dyk", site="direct", p=p, calls=len(log), sweeps=sweeps, maxiter=maxit, below=below, whole=(idx == len(log)), order_ok=order_ok,
                       in_ok=in_ok, out_is_last=bool(np.array_equal(res, x)) if sweeps > 0 else bool(np.array_equal(res, x0)), outxid=rep + 1, inxid=0,
                       feas=feas, boxpos=[], tolok=True, refok=refok, idemok=idemok, lastboxok=lastboxok, start=kind))
    cfg = dict(maxfun=1, det=False, reg=False, hasproj=True, onesample=True, valid=True, mayraise=False, wantopt=False, ref=0, parallel=False, zero=0.0, r1e10=1e10, rhobeg=1.0,
               rhoenddoc=[1e-8] * 3, maxunsucc=10, resetrho=False, maxnpt=3)
    enc = recorder.encode_events(dict(cfg=cfg, ev=ev))
    byrule = sum(1 for e in ev if e["sweeps"] >= 1 and e["below"][e["sweeps"] - 1])
    return dict(id=int(inst["id"]), cfg=enc["cfg"], ev=enc["ev"], summary=dict(outcome="return", nev=len(ev), counts={"Dyk": len(ev)}, byrule=byrule,
                                                                             capped=len(ev) - byrule))


def run(tier):
    import multiprocessing as mp
    V = vlib.Verdict("C15", tier)
    wd = vlib.scratch()
    states = trans = 0
    detail = []
    for P, MI in [(1, 0), (1, 2), (2, 3), (3, 2), (4, 3)]:
        cfg = os.path.join(wd, "dyk_%d_%d.cfg" % (P, MI))
        os.makedirs(wd, exist_ok=True)
        with open(cfg, "w") as f:
            f.write("SPECIFICATION Spec\nCONSTANTS\n  P = %d\n  MaxIter = %d\nINVARIANT SweepCap\nINVARIANT CyclicOrder\nINVARIANT StopsOnlyAtBoundary\nINVARIANT StopRule\n"
                    "INVARIANT ResultIsLast\nPROPERTY Terminates\nCHECK_DEADLOCK FALSE\n" % (P, MI))
        r = vlib.run_tlc("Dykstra.tla", cfg, os.path.join(wd, "dyk_%d_%d" % (P, MI)), workers=2, heap="1g", timeout=600)
        vlib.tlc_machinery_check(r, "Dykstra.tla")
        states += r["distinct"]
        trans += r["generated"]
        detail.append(dict(P=P, MaxIter=MI, distinct=r["distinct"], violated=r["violated"]))
        for v in r["violated"]:
            V.report(dict(clause=v, site="Dykstra.tla", cls="P%d" % P, what="TLC: %s violated in Dykstra.tla" % v, instance=dict(kind="model", module="Dykstra.tla", P=P, MaxIter=MI)))
    rng = np.random.default_rng([vlib.seed(), 15])
    n = 120 if tier == "quick" else 4000
    insts = []
    for i in range(n):
        k = int(rng.integers(1, 5))
        insts.append(dict(id=i + 1, seed=int(rng.integers(0, 2 ** 31 - 1)), n=int(rng.integers(1, 7)), sets=[str(rng.choice(["ball", "half", "box"])) for _ in range(k)],
                          mag=float(rng.choice([0.0, 1.0, 10.0, 300.0])), tol=float(rng.choice([1e-10, 1e-10, 1e-6, 1e-14, 1e-18, 1e-24, 0.0])), maxiter=int(rng.choice([100, 100, 5, 1000])),
                          reps=4, alias=bool(rng.random() < 0.35)))
    ctx = mp.get_context("fork")
    with ctx.Pool(16) as pool:
        traces = pool.map(c15_trace, insts, chunksize=4)
    for t in traces:
        if "machinery" in t:
            raise vlib.MachineryError(t["machinery"])
    res = strace.validate("C15", traces, os.path.join(wd, "tr"))
    byid = {i["id"]: i for i in insts}
    tr = {t["id"]: t for t in traces}
    hits = {}
    for tid, viols in res["per"].items():
        seen = set()
        for clause, l in viols:
            hits[clause] = hits.get(clause, 0) + 1
            if clause in seen:
                continue
            seen.add(clause)
            V.report(dict(clause=clause, site="dykstra", cls="tol=%g" % byid[tid]["tol"], sets="+".join(byid[tid]["sets"]), what="dykstra call %d of instance %d: clause %s false (%s)" % (l, tid, clause, tr[tid]["ev"][l - 1]),
                          instance=dict(kind="c15_instance", inst=byid[tid], call=l)))
    ncalls = sum(t["summary"]["nev"] for t in traces)
    cov = dict(states=states, transitions=trans, model_runs=detail, traces_validated_against_impl=len(traces), dykstra_calls=ncalls,
               stopped_by_rule=sum(t["summary"]["byrule"] for t in traces), hit_sweep_cap=sum(t["summary"]["capped"] for t in traces), clause_failures=hits,
               evaluations=ncalls, distinct_nontrivial=len(set((i["n"], tuple(i["sets"]), i["tol"], i["maxiter"]) for i in insts)),
               rule="random intersections per (dimension, set kinds, tolerance, sweep cap) class, 4 start kinds each (near, far, inside, barely infeasible); calls that hit the sweep cap are exempt from the feasibility / optimality clauses as the property says",
               samples=[dict(instance=insts[0], events=traces[0]["ev"][:2])])
    return V.finish(cov, "model_checking", ["projectors are the harness's own exact projectors onto balls, half-spaces and boxes with a common interior point; in about a third of the "
                                            "instances they return their argument object itself when it is already in the set",
                                            "reference projection: the same algorithm run to tol 1e-28 / 2*10^5 sweeps"])
