"""C12 (trsbox) and C13 (geometry / convex step kernels / regularised step): Kernels.tla enumerates the input-class patterns, each is
concretised into calls of the real kernel, contract classes are computed at return (harness/kernels.py) and evaluated by the trace
specification; in addition every kernel call made INSIDE recorded solver runs is judged by the same clauses (realistic inputs)."""
import os

import numpy as np

from . import vlib, strace, kernels, c14, corpus


def enum_states(wd, maxn):
    states, r = c14.tlc_enum(wd, "Kernels", maxn, "KERNEL", ["TypeOK", "EmitInv"])
    return states, r


def sampled_patterns(rng, kernel, nmin, nmax, count):
    """class patterns for dimensions beyond the exhaustively enumerated ones, drawn from the same class sets as Kernels.tla"""
    out = []
    for _ in range(count):
        n = int(rng.integers(nmin, nmax + 1))
        out.append(dict(kernel=kernel, n=n, pos=[str(rng.choice(["atL", "nearL", "in", "in", "atU", "nearU", "free"])) for _ in range(n)],
                        sgn=[str(rng.choice(["neg", "zero", "pos", "pos", "neg"])) for _ in range(n)],
                        hk=str(rng.choice(["zero", "psd_lowrank", "psd_full", "indefinite", "badscale"])) if kernel == "trsbox" else "zero", sets=[], coin="none", act="inside", rel="generic"))
        if kernel == "trsbox":
            nmov = sum(1 for p, s in zip(out[-1]["pos"], out[-1]["sgn"]) if p == "in" and s != "zero")
            u = rng.random()
            nlive = sum(1 for p, s in zip(out[-1]["pos"], out[-1]["sgn"]) if p in ("in", "free") and s != "zero")
            if nmov >= 2 and u < 0.2:
                out[-1]["coin"] = "tied_bounds"
            elif nmov >= 1 and u < 0.4:
                out[-1]["coin"] = "bound_on_sphere"
            elif nmov >= 1 and nlive >= 3 and u < 0.7:
                out[-1].update(coin="bound_then_arc", hk=str(rng.choice(["indefinite", "psd_lowrank"])))
            elif nmov >= 1 and u < 0.8:
                out[-1].update(coin="bound_at_delta", hk="zero")
    return out


def late_bound_patterns(rng, count):
    """the class late_bound_then_arc of Kernels.tla at n = 3..5 (its outcome depends on the digits: concretised many times)"""
    out = []
    for _ in range(count):
        n = int(rng.integers(3, 6))
        pos = [str(rng.choice(["in", "free"])) for _ in range(n)]
        pos[int(rng.integers(0, n))] = "in"
        out.append(dict(kernel="trsbox", n=n, pos=pos, sgn=[str(rng.choice(["neg", "pos"])) for _ in range(n)], hk="psd_lowrank", sets=[], coin="late_bound_then_arc",
                        act="inside", rel="generic"))
    return out


def run_kernel_check(prop, tier, kernels_wanted, solver_insts, reps, sample_counts):
    import multiprocessing as mp
    V = vlib.Verdict(prop, tier)
    wd = vlib.scratch()
    maxn = 2 if tier == "quick" else 3
    states, r = enum_states(wd, maxn)
    rng = np.random.default_rng([vlib.seed(), int(prop[1:])])
    sel = []
    for k in kernels_wanted:
        ks = [s for s in states if s["kernel"] == k]
        if k.startswith("ctrsbox"):
            cnt = sample_counts.get(k, 40)
            inside = [s for s in ks if s["act"] == "inside"]
            idx = rng.choice(len(inside), size=min(cnt, len(inside)), replace=False)
            # every 'active' pattern; two active half-spaces (the slowly converging case of the alternating projections) several times over
            ks = [inside[int(i)] for i in idx] + [s for s in ks if s["act"] == "active"] + [s for s in ks if s["act"] == "active" and list(s["sets"]) == ["half", "half"]] * 2 \
                + [s for s in ks if s["act"] == "just_outside"] * 4
        if k == "trsbox":
            # classes whose outcome depends on the digits of the data are concretised many more times (a call costs ~0.1 ms)
            ks = ks + [s for s in ks if s.get("coin") == "bound_at_delta"] * 40
        sel += ks
        if k in ("trsbox", "trsbox_geometry"):
            sel += sampled_patterns(rng, k, maxn + 1, 8, sample_counts.get(k + "_hi", 300))
        if k == "trsbox":
            sel += late_bound_patterns(rng, sample_counts.get("trsbox_late", 0))
    nchunks = 48
    chunks = [(i + 1, sel[i::nchunks], vlib.seed(), reps) for i in range(nchunks) if sel[i::nchunks]]
    ctx = mp.get_context("fork")
    with ctx.Pool(16) as pool:
        traces = pool.map(kernels.kernel_trace, chunks)
    res = strace.validate(prop, traces, os.path.join(wd, "ktr"))
    hits = {}
    tr = {t["id"]: t for t in traces}
    ncalls = sum(t["summary"]["nev"] for t in traces)
    for tid, viols in res["per"].items():
        seen = set()
        for clause, l in viols:
            hits[clause] = hits.get(clause, 0) + 1
            if clause in seen:
                continue
            seen.add(clause)
            e = tr[tid]["ev"][l - 1]
            st = tr[tid]["states"][e["st"]]
            V.report(dict(clause=clause, site=st["kernel"], cls="n%d/%s" % (st["n"], st["hk"]), what="%s call (class pattern %s, rep %d): clause %s false" % (st["kernel"], st, e["rep"], clause),
                          instance=dict(kind="kernel_state", state=st, chunk=tid, index=e["st"], rep=e["rep"], reps=reps)))
    # kernel calls inside solver runs
    from . import solverchecks as sc
    tcov, straces = sc.trace_part(prop, solver_insts, V, os.path.join(wd, "traces"))
    insolver = sum(1 for t in straces for e in t["ev"] if e["ev"] == "Kernel")
    outdom = sum(1 for t in straces for e in t["ev"] if e["ev"] == "Kernel" and e.get("dom") == "out")
    mach = None
    if "trsbox" in kernels_wanted:
        # inside the kernel: Trsbox.tla model-checked, and monitored calls of the real trsbox (a sample of the same class patterns, every
        # coincidence class, plus the calls of whole solver runs) validated against it snapshot by snapshot
        from . import trsboxmachine
        pats = [s for s in sel if s["kernel"] == "trsbox"]
        keep = [s for s in pats if s.get("coin", "none") not in ("none", "late_bound_then_arc")][:1500]
        idx = rng.choice(len(pats), size=min(len(pats), sample_counts.get("trsbox_machine", 3000)), replace=False)
        mach = trsboxmachine.part(V, tier, wd, keep + [pats[int(i)] for i in idx], solver_insts[:sample_counts.get("trsbox_machine_runs", 24)], 1)
    smach = None
    if "ctrsbox_sfista" in kernels_wanted:
        # inside the regularised step solver: Sfista.tla (iteration-count machine) against monitored calls of whole regularised runs
        from . import sfistamachine
        regs = [i for i in solver_insts if i.get("reg", "none") != "none"][:sample_counts.get("sfista_machine_runs", 8)]
        smach = sfistamachine.part(V, tier, wd, regs)
    lmach = None
    if "trsbox_geometry" in kernels_wanted:
        # inside the bound-constrained geometry step: TrsboxLinear.tla (active-set loop) against monitored calls on the same class patterns
        from . import linmachine
        lmach = linmachine.part(V, tier, wd, [s for s in sel if s["kernel"] == "trsbox_geometry"][:sample_counts.get("lin_machine", 1500)])
    cov = dict(states=r["distinct"] + (mach["model_states"] if mach else 0), transitions=r["generated"] + (mach["model_transitions"] if mach else 0), kernel_machine=mach, sfista_machine=smach, trsbox_linear_machine=lmach,
               class_patterns=len(sel), kernel_calls=ncalls, kernel_calls_inside_solver_runs=insolver,
               kernel_calls_inside_solver_runs_outside_scale_domain=outdom,
               traces_validated_against_impl=len(traces) + tcov["traces_validated_against_impl"], clause_failures=dict(hits, **tcov["clause_failures"]),
               evaluations=ncalls + insolver, distinct_nontrivial=len(sel), solver_outcomes=tcov["outcomes"],
               rule="class patterns of Kernels.tla (exhaustive for n <= %d; dimensions up to 8 sampled from the same class sets), %d concretisations each with scalings over the "
                    "decades of the property; explored domain: |xopt| <= 100*delta, gradient components 0 or >= 1e-10" % (maxn, reps),
               samples=[dict(state=sel[0], event=traces[0]["ev"][0])])
    return V.finish(cov, "exploration", ["the inequalities are evaluated in binary64 by the harness (TLC cannot); the specification enumerates the classes and evaluates the clauses",
                                         "Trsbox.tla abstracts the arithmetic of the kernel (which exit fires, which variable meets its bound) and keeps its bookkeeping; it is exhaustive for n <= 3 (quick) / 4 "
                                         "(thorough) and evaluated as a membership test on monitored calls of any dimension",
                                         "oracles: truncated steepest-descent step (C12), bisection on the clipped ray (C13)"])


def run(tier):
    rng = np.random.default_rng([vlib.seed(), 12])
    n = 60 if tier == "quick" else 1200
    insts = []
    for i in range(n):
        inst = corpus.general(rng, i + 1, allow=("bounds", "npt", "restarts", "regress"))
        corpus.with_bounds(rng, inst)
        inst["maxfun"] = max(inst["maxfun"], 30)
        insts.append(inst)
    # the first solver runs are also the monitored ones (Trsbox.tla): put bound-constrained linear problems of dimension 6..10 with most bounds active at
    # the solution in front - their trsbox calls fix several variables in the conjugate-gradient phase AND in the alternative iteration
    from . import c05
    rich = []
    for j in range(8 if tier == "quick" else 100):
        nn = int(rng.integers(6, 11))
        status = [str(rng.choice(["free", "atL", "atU"], p=[0.4, 0.3, 0.3])) for _ in range(nn)]
        st = dict(prop="C05", n=nn, status=status, mclass=str(rng.choice(["square", "over"])), x0class=str(rng.choice(["interior", "onbound"])), scaling=False, nptclass="n+1",
                  cond=int(rng.choice([1, 10, 100])), reg="none", bounded=True, args=False, special="none")
        ri = c05.concretise_c05(st, vlib.seed(), 120000 + j)
        ri.pop("fstar", None)       # C12 judges the kernel calls of the run, not where it ends
        ri["maxfun"] = 25 * nn
        rich.append(ri)
    insts = rich + insts
    return run_kernel_check("C12", tier, ["trsbox"], insts, reps=2 if tier == "quick" else 8, sample_counts={"trsbox_hi": 400 if tier == "quick" else 6000, "trsbox_late": 20000 if tier == "quick" else 60000,
                                           "trsbox_machine": 3000 if tier == "quick" else 40000, "trsbox_machine_runs": 24 if tier == "quick" else 300})
