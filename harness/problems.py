"""Concretiser: turns a JSON-able *instance description* (a configuration class chosen by the corpus generators,
plus a seed) into the arguments of dfols.solve and the oracles the clauses need.

An instance description is the unit of replay: everything needed to re-run a case is in it.
"""
import math
import numpy as np


class InjectedError(Exception):
    """The exception a 'raise' fault script throws from inside the residual function."""


# the same fault with the exception types the library itself catches somewhere (a user's residual function can raise any of them)
class InjectedLinAlgError(np.linalg.LinAlgError, InjectedError):
    pass


class InjectedValueError(ValueError, InjectedError):
    pass


class InjectedZeroDivisionError(ZeroDivisionError, InjectedError):
    pass


class InjectedAssertionError(AssertionError, InjectedError):
    pass


class InjectedRuntimeError(RuntimeError, InjectedError):
    pass


class InjectedOverflowError(OverflowError, InjectedError):      # what math.exp / a float power out of range raises; util.py catches it around its own sum of squares
    pass


class InjectedFloatingPointError(FloatingPointError, InjectedError):
    pass


class InjectedTypeError(TypeError, InjectedError):
    pass


class InjectedIndexError(IndexError, InjectedError):
    pass


class InjectedKeyError(KeyError, InjectedError):
    pass


RAISE_KINDS = {"raise": InjectedError, "raise_linalg": InjectedLinAlgError, "raise_value": InjectedValueError, "raise_zerodiv": InjectedZeroDivisionError,
               "raise_assert": InjectedAssertionError, "raise_runtime": InjectedRuntimeError, "raise_overflow": InjectedOverflowError,
               "raise_fpe": InjectedFloatingPointError, "raise_type": InjectedTypeError, "raise_index": InjectedIndexError, "raise_key": InjectedKeyError}


def _rng(inst, salt):
    return np.random.default_rng([int(inst.get("seed", 0)) & 0x7FFFFFFF, int(salt)])


def soft(z, t):
    return np.sign(z) * np.maximum(np.abs(z) - t, 0.0)


def make_sets(inst, c):
    """Convex sets with common interior point c.  Returns list of dict(kind, proj, dist)."""
    out = []
    rng = _rng(inst, 11)
    n = len(c)
    for kind in inst.get("proj", []):
        if kind == "ball":
            off = rng.normal(size=n)
            off = off / max(np.linalg.norm(off), 1e-300) * rng.uniform(0.0, 0.6)
            ctr, rad = c + off, float(rng.uniform(1.0, 2.5))
            out.append(dict(kind="ball", proj=(lambda x, ctr=ctr, rad=rad: ctr + (rad / max(np.linalg.norm(x - ctr), rad)) * (x - ctr)),
                            dist=(lambda x, ctr=ctr, rad=rad: max(0.0, float(np.linalg.norm(x - ctr)) - rad))))
        elif kind == "half":
            a = rng.normal(size=n)
            a = a / np.linalg.norm(a)
            beta = float(a @ c + rng.uniform(0.3, 1.5))  # a.x <= beta, c strictly inside
            out.append(dict(kind="half", proj=(lambda x, a=a, beta=beta: x - max(0.0, float(a @ x) - beta) * a),
                            dist=(lambda x, a=a, beta=beta: max(0.0, float(a @ x) - beta))))
        elif kind == "box":
            lo = c - rng.uniform(0.4, 2.0, size=n)
            hi = c + rng.uniform(0.4, 2.0, size=n)
            out.append(dict(kind="box", proj=(lambda x, lo=lo, hi=hi: np.minimum(np.maximum(x, lo), hi)),
                            dist=(lambda x, lo=lo, hi=hi: float(np.linalg.norm(x - np.minimum(np.maximum(x, lo), hi))))))
        else:
            raise ValueError(kind)
    return out


def build(inst):
    """Returns dict with: resid (pure residual function), kwargs (for dfols.solve, without objfun), lo, hi (user's bound
    arrays or None), sets, h, A, b, c, n, m."""
    if inst.get("explicit"):
        return build_explicit(inst)
    n, m = int(inst["n"]), int(inst["m"])
    rng = _rng(inst, 7)
    A = rng.normal(size=(m, n))
    if inst.get("cond"):
        # prescribed singular values (C05): cond(A) = inst["cond"]
        U, _ = np.linalg.qr(rng.normal(size=(m, m)))
        V, _ = np.linalg.qr(rng.normal(size=(n, n)))
        k = min(m, n)
        sv = np.geomspace(1.0, 1.0 / float(inst["cond"]), k) if k > 1 else np.ones(1)
        S = np.zeros((m, n))
        S[:k, :k] = np.diag(sv)
        A = U @ S @ V.T
    b = rng.normal(size=m)
    if inst.get("zerocol"):
        A[:, int(_rng(inst, 17).integers(0, n))] = 0.0      # one variable has no influence on the residuals: the Jacobian is rank deficient
    if inst.get("ascale"):
        A *= float(inst["ascale"])                          # weakly sensitive residuals: |J| tiny while the residuals themselves are O(1)
    mag = float(inst.get("mag", 1.0))
    c = rng.normal(size=n) * mag
    kind = inst.get("prob", "nl")
    tgt = float(inst.get("tdist", 5.0)) * np.where(_rng(inst, 13).random(n) < 0.5, -1.0, 1.0)

    def resid(x):
        z = x - c
        if kind == "lin":
            return A @ z - b
        if kind == "nl":
            return A @ z - b + 0.3 * np.sin(3.0 * z).sum()
        if kind == "ros":
            return np.array([10.0 * (z[1] - z[0] ** 2), 1.0 - z[0]])
        if kind == "ros3":  # Rosenbrock residuals shifted so that the minimum residual is not zero
            return np.array([10.0 * (z[1] - z[0] ** 2), 1.0 - z[0]]) + 1e-3
        if kind == "zero":
            return 0.0 * (A @ z)
        if kind == "target":   # r(x) = x - t : the minimiser is the point t = c + 5*sign pattern (pushes the solution into corners of the feasible set)
            return z - tgt
        if kind == "target1":  # same with a constant extra residual: non-zero optimal value, minimiser t
            return np.concatenate([z - tgt, [1.0]])
        if kind == "zres":  # zero-residual problem: triggers the 'objective is sufficiently small' exit
            return A @ z + 0.1 * (z ** 2).sum() * np.ones(m)
        raise ValueError(kind)

    btype = inst.get("bounds", "none")
    lo = hi = None
    wl = rng.uniform(0.5, 3.0, size=n) * float(inst.get("bscale", 1.0))
    wu = rng.uniform(0.5, 3.0, size=n) * float(inst.get("bscale", 1.0))
    if btype in ("both", "lower"):
        lo = c - wl
    if btype in ("both", "upper"):
        hi = c + wu
    if inst.get("corner") and lo is not None and hi is not None:
        # a box one of whose corners lies inside the convex sets (all of which contain a ball of radius >= 0.3 around c): faces AND set boundaries active
        sg = np.where(tgt < 0, -1.0, 1.0)
        for j in range(n):
            if sg[j] < 0:
                lo[j], hi[j] = c[j] - 0.25, c[j] + wu[j] + 1.0       # pushed towards the lower face, which is close
            else:
                lo[j], hi[j] = c[j] - wl[j] - 1.0, c[j] + 0.25 + 3.0  # pushed towards the set boundary before the far upper face
    if inst.get("corner") and (lo is None) != (hi is None):
        # one-sided bounds: the face is close to c in the coordinates the 'target' problem pushes towards it, far away in the others
        sg = np.where(tgt < 0, -1.0, 1.0)
        for j in range(n):
            if lo is not None:
                lo[j] = c[j] - 0.25 if sg[j] < 0 else c[j] - wl[j] - 1.0
            else:
                hi[j] = c[j] + 0.25 if sg[j] > 0 else c[j] + wu[j] + 1.0
    if inst.get("x0atmin"):
        pass
    if inst.get("boxaway") and lo is not None and hi is not None:
        # move the box away from the unconstrained minimiser in some coordinates
        sh = (rng.random(n) < 0.6) * rng.choice([-1.0, 1.0], size=n) * (wl + wu)
        lo, hi = lo + sh, hi + sh
    if inst.get("boxaway") and (lo is None) != (hi is None):
        # one-sided bounds pushed past the unconstrained minimiser in some coordinates (the solution then sits on them)
        sh = (rng.random(n) < 0.7) * (wl + wu)
        if lo is not None:
            lo = lo + sh
        else:
            hi = hi - sh
    if inst.get("smallbounds") and (lo is not None or hi is not None):
        # translate the whole problem so that the (one-sided) bounds are small numbers with many significant digits while x0 stays O(1) away:
        # then bound - xbase rounds, and xbase + (bound - xbase) is one unit of rounding off the bound about half of the time
        ref = lo if lo is not None else hi
        t = ref - rng.uniform(-0.3, 0.3, size=n)
        c = c - t
        lo = None if lo is None else lo - t
        hi = None if hi is None else hi - t
    rhobeg = float(inst.get("rhobeg", 0.1 if inst.get("scaling") else 0.2))
    # starting point: per coordinate placement relative to the bounds
    x0 = c + rng.normal(size=n) * float(inst.get("x0spread", 1.0))
    places = inst.get("x0place") or ["in"] * n
    for j in range(n):
        p = places[j % len(places)]
        L = lo[j] if lo is not None else None
        U = hi[j] if hi is not None else None
        if p == "in":
            if L is not None and U is not None:
                x0[j] = L + (U - L) * rng.uniform(0.3, 0.7)
            elif L is not None:
                x0[j] = L + rng.uniform(0.5, 2.0)
            elif U is not None:
                x0[j] = U - rng.uniform(0.5, 2.0)
        elif p == "L" and L is not None:
            x0[j] = L
        elif p == "U" and U is not None:
            x0[j] = U
        elif p == "L+" and L is not None:
            x0[j] = np.nextafter(L, np.inf)
        elif p == "U-" and U is not None:
            x0[j] = np.nextafter(U, -np.inf)
        elif p == "nearL" and L is not None:
            x0[j] = L + 0.009 * rhobeg * (U - L if inst.get("scaling") and U is not None else 1.0)
        elif p == "nearL2" and L is not None:
            x0[j] = L + 0.011 * rhobeg * (U - L if inst.get("scaling") and U is not None else 1.0)
        elif p == "nearU" and U is not None:
            x0[j] = U - 0.009 * rhobeg * (U - L if inst.get("scaling") and L is not None else 1.0)
        elif p == "nearU2" and U is not None:
            x0[j] = U - 0.011 * rhobeg * (U - L if inst.get("scaling") and L is not None else 1.0)
        elif p == "belowL" and L is not None:
            x0[j] = L - rng.uniform(1e-9, 1.0)
        elif p == "aboveU" and U is not None:
            x0[j] = U + rng.uniform(1e-9, 1.0)
        elif p == "slightL" and L is not None:
            x0[j] = L - 1e-7
        elif p == "slightU" and U is not None:
            x0[j] = U + 1e-7
    if inst.get("tgtonbound") and (lo is None) != (hi is None):
        # zero-residual 'target' problem whose solution lies ON the one-sided bounds in most coordinates (the run ends with a trial point there)
        bnd = lo if lo is not None else hi
        for j in range(n):
            if rng.random() < 0.7:
                tgt[j] = bnd[j] - c[j]
            else:
                tgt[j] = bnd[j] - c[j] + (1.0 if lo is not None else -1.0) * rng.uniform(0.5, 1.5)
    if inst.get("roundout"):
        # starting points for which the base-point arithmetic xbase + (bound - xbase) lands one unit of rounding OUTSIDE the bound (class chosen by
        # rejection: about a third of random pairs have it when the bound is small against the distance)
        for j in range(n):
            for t in range(300):
                if lo is not None and hi is None:
                    if x0[j] + (lo[j] - x0[j]) < lo[j]:
                        break
                    if t % 25 == 24:
                        lo[j] = np.nextafter(lo[j], np.inf)      # whether it can happen at all depends on the last bits of the bound
                    x0[j] = rng.uniform(lo[j] + 0.5, lo[j] + 2.0)
                elif hi is not None and lo is None:
                    if x0[j] + (hi[j] - x0[j]) > hi[j]:
                        break
                    if t % 25 == 24:
                        hi[j] = np.nextafter(hi[j], -np.inf)
                    x0[j] = rng.uniform(hi[j] - 2.0, hi[j] - 0.5)
    if inst.get("x0atmin"):
        x0 = c + tgt          # start exactly at the minimiser of the 'target' problems: the first run cannot improve on f(x0)
    if inst.get("x0far"):
        # minimiser very far from the start (badly scaled problem): the trust-region radius grows to its cap
        d = rng.normal(size=n)
        x0 = c + float(inst["x0far"]) * d / np.linalg.norm(d)
    sets = make_sets(inst, c)
    if sets and inst.get("x0feas", "in") != "in":
        # place x0 relative to the convex sets
        d = rng.normal(size=n)
        d /= np.linalg.norm(d)
        if inst["x0feas"] == "far":
            x0 = c + d * 6.0
        elif inst["x0feas"] == "slight":  # feasible point pushed 1e-7 outside the first set along a random direction
            t = 0.0
            step = 0.05
            x = c.copy()
            while all(s["dist"](x + step * d) == 0.0 for s in sets) and t < 100:
                x = x + step * d
                t += step
            # bisection to the boundary of the intersection
            a_, b_ = 0.0, step
            for _ in range(60):
                mid = 0.5 * (a_ + b_)
                if all(s["dist"](x + mid * d) == 0.0 for s in sets):
                    a_ = mid
                else:
                    b_ = mid
            x0 = x + (a_ + 1e-7) * d
    kw = dict(rhobeg=rhobeg, rhoend=float(inst.get("rhoend", 1e-6)), maxfun=int(inst.get("maxfun", 60)))
    if lo is not None or hi is not None:
        kw["bounds"] = (lo.copy() if lo is not None else None, hi.copy() if hi is not None else None)
    if inst.get("scaling"):
        kw["scaling_within_bounds"] = True
    if inst.get("npt"):
        kw["npt"] = {"n+1": n + 1, "2n+1": 2 * n + 1, "mid": n + 1 + max(1, n // 2), "n+2": n + 2, "full": (n + 1) * (n + 2) // 2}[inst["npt"]] if isinstance(inst["npt"], str) else int(inst["npt"])
    ns = inst.get("nsamples", "1")
    if ns == "2":
        kw["nsamples"] = lambda delta, rho, it, nruns: 2
    elif ns == "3":
        kw["nsamples"] = lambda delta, rho, it, nruns: 3
    elif ns == "alt3":
        kw["nsamples"] = lambda delta, rho, it, nruns: 3 if it % 2 == 0 else 1
    elif ns == "zero":  # a callback that returns 0: the solver must still take one sample
        kw["nsamples"] = lambda delta, rho, it, nruns: 0 if it % 2 == 1 else 2
    elif ns == "runs":
        kw["nsamples"] = lambda delta, rho, it, nruns: 1 + min(nruns, 2)
    up = dict(inst.get("user_params", {}))
    r = inst.get("restarts", "none")
    if r != "none":
        up["restarts.use_restarts"] = True
    if r in ("hard", "hardnew"):
        up["restarts.use_soft_restarts"] = False
        up["restarts.hard.use_old_rk"] = (r == "hard")
    if "maxunsucc" in inst:
        up["restarts.max_unsuccessful_restarts"] = int(inst["maxunsucc"])
    if "rhoend_scale" in inst:
        up["restarts.rhoend_scale"] = float(inst["rhoend_scale"])
    if inst.get("incnpt"):
        up["restarts.increase_npt"] = True
        up["restarts.max_npt"] = max(int(kw.get("npt", n + 1)), min(int(kw.get("npt", n + 1)) + int(inst["incnpt"]), (n + 1) * (n + 2) // 2))
        if inst.get("maxnpt_over"):
            # a cap above (n+1)(n+2)/2, which the documented range allows: hard restarts must stop adding points by themselves (F-34)
            up["restarts.max_npt"] = (n + 1) * (n + 2) // 2 + int(inst["maxnpt_over"])
    if "abs_tol" in inst:
        up["model.abs_tol"] = float(inst["abs_tol"])
    if "rel_tol" in inst:
        up["model.rel_tol"] = float(inst["rel_tol"])
    if inst.get("diag"):
        up["logging.save_diagnostic_info"] = True
        up["logging.save_poisedness"] = bool(inst.get("poised", False))
    if inst.get("growing"):
        up["growing.ndirs_initial"] = max(1, min(int(inst["growing"]), int(kw.get("npt", n + 1)) - 1))
    if inst.get("print_progress"):
        kw["print_progress"] = True
    if inst.get("noise"):
        kw["objfun_has_noise"] = True
    if up:
        kw["user_params"] = up
    h = None
    reg = inst.get("reg", "none")
    lam = float(inst.get("lam", 0.1))
    if reg == "l1":
        if inst.get("args"):
            h = lambda x, lam_: lam_ * np.sum(np.abs(x))
            prox = lambda x, u, lam_: soft(x, lam_ * u)
            kw.update(argsh=(lam,), argsprox=(lam,))
        else:
            h = lambda x: lam * np.sum(np.abs(x))
            prox = lambda x, u: soft(x, lam * u)
        kw.update(h=h, lh=lam * math.sqrt(n), prox_uh=prox)
    elif reg == "l2":
        def proxl2(x, u, *a):
            lam_ = a[0] if a else lam
            nx = np.linalg.norm(x)
            return x * max(0.0, 1.0 - lam_ * u / nx) if nx > 0 else x
        if inst.get("args"):
            h = lambda x, lam_: lam_ * np.linalg.norm(x)
            kw.update(argsh=(lam,), argsprox=(lam,))
        else:
            h = lambda x: lam * np.linalg.norm(x)
        kw.update(h=h, lh=lam, prox_uh=proxl2)
    if sets:
        kw["projections"] = [s["proj"] for s in sets]
    hval = (lambda x: 0.0) if h is None else (lambda x: float(h(x, *kw.get("argsh", ()))))
    if inst.get("rscale"):
        # finite residuals of overflow size: every sum of squares is +inf although no residual is
        resid0, rs_ = resid, float(inst["rscale"])
        resid = lambda x: resid0(x) * rs_
    return dict(resid=resid, kwargs=kw, x0=x0, lo=lo, hi=hi, sets=sets, hval=hval, A=A, b=b, c=c, n=n, m=m, lam=lam, reg=reg,
                noise=float(inst.get("noise_sd", 0.0)))


def build_explicit(inst):
    """instances whose data are given explicitly (constructed optima, C05 / C06): r(x) = A x - b"""
    E = inst["explicit"]
    A = np.array(E["A"], dtype=float)
    b = np.array(E["b"], dtype=float)
    m, n = A.shape
    lo = np.array(E["lo"], dtype=float) if E.get("lo") is not None else None
    hi = np.array(E["hi"], dtype=float) if E.get("hi") is not None else None
    x0 = np.array(E["x0"], dtype=float)
    kw = {}
    for k in ("rhobeg", "rhoend", "maxfun"):
        if k in inst and not (inst.get("use_default_budget") and k in ("maxfun", "rhoend")):
            kw[k] = inst[k]
    if lo is not None:
        kw["bounds"] = (lo.copy(), hi.copy())
    if inst.get("scaling"):
        kw["scaling_within_bounds"] = True
    if inst.get("npt"):
        kw["npt"] = int(inst["npt"])
    if inst.get("user_params"):
        kw["user_params"] = dict(inst["user_params"])
    lam = float(inst.get("lam", 0.0))
    reg = inst.get("reg", "none")
    h = None
    seen_args = dict(h=[], prox=[])
    if reg == "l1":
        if inst.get("args"):
            def h(x, lam_, tag):
                seen_args["h"].append((lam_, tag))
                return lam_ * float(np.sum(np.abs(x)))

            def prox(x, u, lam_, tag):
                seen_args["prox"].append((lam_, tag))
                return soft(x, lam_ * u)
            kw.update(argsh=(lam, "tag-h"), argsprox=(lam, "tag-prox"))
        else:
            h = lambda x: lam * float(np.sum(np.abs(x)))
            prox = lambda x, u: soft(x, lam * u)
        kw.update(h=h, lh=lam * math.sqrt(n), prox_uh=prox)
        if inst.get("lhtype") == "float32":
            kw["lh"] = np.float32(lam * math.sqrt(n) * 1.0001)        # (a slightly larger constant is still a Lipschitz constant)
    elif reg == "l2":
        def proxl2(x, u, *a):
            if a:
                seen_args["prox"].append(tuple(a))
            nx = np.linalg.norm(x)
            return x * max(0.0, 1.0 - lam * u / nx) if nx > 0 else x
        if inst.get("args"):
            def h(x, lam_, tag):
                seen_args["h"].append((lam_, tag))
                return lam_ * float(np.linalg.norm(x))
            kw.update(argsh=(lam, "tag-h"), argsprox=(lam, "tag-prox"))
        else:
            h = lambda x: lam * float(np.linalg.norm(x))
        kw.update(h=h, lh=lam, prox_uh=proxl2)
        if inst.get("lhtype") == "int":
            assert float(int(lam)) == lam
            kw["lh"] = int(lam)
    if inst.get("nsamples") == "2":
        kw["nsamples"] = lambda delta, rho, it, nruns: 2
    hval = (lambda x: 0.0) if h is None else ((lambda x: lam * float(np.sum(np.abs(x)))) if reg == "l1" else (lambda x: lam * float(np.linalg.norm(x))))
    return dict(resid=(lambda x: A @ x - b), kwargs=kw, x0=x0, lo=lo, hi=hi, sets=[], hval=hval, A=A, b=b, c=np.zeros(n), n=n, m=m, lam=lam, reg=reg,
                noise=0.0, seen_args=seen_args)
