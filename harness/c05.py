"""C05 / C06 - convergence to a constructed optimum (model-based test generation, DESIGN.md 2.4).

Problems.tla enumerates the KKT patterns; for each pattern an instance is built whose optimality conditions hold by construction at a chosen
x*, so f* (F*) is known exactly; the real solver runs under the recorder with its default budget, the trace is validated against
DfolsTrace.tla, and the final clause requires: success flag, feasible x, obj - f* <= tol*(1 + f*)   (tol = 1e-6 for C05, 1e-3 for C06).
"""
import math
import os

import numpy as np

from . import vlib, c14


def rand_A(rng, m, n, cond):
    U, _ = np.linalg.qr(rng.normal(size=(m, m)))
    V, _ = np.linalg.qr(rng.normal(size=(n, n)))
    k = min(m, n)
    sv = np.geomspace(1.0, 1.0 / float(cond), k) if k > 1 else np.ones(1)
    S = np.zeros((m, n))
    S[:k, :k] = np.diag(sv)
    return (U @ S @ V.T) * float(rng.choice([0.5, 1.0, 3.0]))


def resid_for(rng, A, gamma):
    """r* with 2 A' r* = gamma (plus a component in null(A') when the system is over-determined)"""
    m, n = A.shape
    r = A @ np.linalg.solve(A.T @ A, gamma / 2.0)
    if m > n:
        Q, _ = np.linalg.qr(A, mode="complete")
        N = Q[:, n:]
        r = r + N @ (rng.normal(size=m - n) * 0.5)
    return r


def concretise_c05(st, seed, iid):
    rng = np.random.default_rng([seed, 5, iid])
    n = st["n"]
    m = {"under": n - 1, "square": n, "over": n + int(rng.integers(1, 4))}[st["mclass"]]
    A = rand_A(rng, m, n, st["cond"])
    xs = rng.uniform(-2.5, 2.5, size=n)
    status = st["status"]
    if m >= n:
        mu = np.array([0.0 if s == "free" else (rng.uniform(0.5, 2.0) if s == "atL" else -rng.uniform(0.5, 2.0)) for s in status])
        if st.get("special") == "start_on_active_face":
            mu = mu * float(rng.choice([1.0, 10.0, 50.0]))      # the pull against the active bounds dominates the free variables' gradient
        # scale multipliers with the problem so that strict complementarity is not lost in the conditioning
        r = resid_for(rng, A, mu * float(np.linalg.norm(A, 2)) ** 2 * 0.2)
    else:
        r = np.zeros(m)
    b = A @ xs - r
    fstar = float(r @ r)
    lo = hi = None
    if st["bounded"]:
        lo, hi = np.zeros(n), np.zeros(n)
        for i, s in enumerate(status):
            if s == "free":
                lo[i], hi[i] = xs[i] - rng.uniform(0.8, 2.0), xs[i] + rng.uniform(0.8, 2.0)
            elif s == "atL":
                lo[i] = xs[i]
                hi[i] = lo[i] + rng.uniform(1.6, 3.0)
            else:
                hi[i] = xs[i]
                lo[i] = hi[i] - rng.uniform(1.6, 3.0)
        if st.get("special") == "narrow_box":
            # shrink the box around x* (keeping the active set): sides 0.05..0.15 long
            for i, s in enumerate(status):
                w = rng.uniform(0.05, 0.15)
                if s == "free":
                    t = rng.uniform(0.3, 0.7)
                    lo[i], hi[i] = xs[i] - t * w, xs[i] + (1 - t) * w
                elif s == "atL":
                    hi[i] = lo[i] + w
                else:
                    lo[i] = hi[i] - w
        x0 = lo + (hi - lo) * rng.uniform(0.2, 0.8, size=n)
        if st["x0class"] == "onbound":
            for i in range(n):
                u = rng.random()
                if u < 0.4:
                    x0[i] = lo[i]
                elif u < 0.8:
                    x0[i] = hi[i]
        elif st["x0class"] == "infeasible":
            for i in range(n):
                u = rng.random()
                if u < 0.4:
                    x0[i] = lo[i] - rng.uniform(1e-9, 0.5) * min(1.0, hi[i] - lo[i])
                elif u < 0.8:
                    x0[i] = hi[i] + rng.uniform(1e-9, 0.5) * min(1.0, hi[i] - lo[i])
    else:
        x0 = xs + rng.normal(size=n) * 2.0
    if st.get("special") in ("start_on_active_face", "warm_start"):
        warm = st["special"] == "warm_start"
        for i, s in enumerate(status):
            if s == "atL":
                x0[i] = lo[i]
            elif s == "atU":
                x0[i] = hi[i]
            elif warm:
                x0[i] = xs[i] + float(rng.choice([-1.0, 1.0])) * float(rng.choice([1e-8, 1e-7, 2.5e-7, 1e-6]))
            else:
                sg = float(rng.choice([-1.0, 1.0]))
                x0[i] = xs[i] + sg * rng.uniform(0.5, 0.75) * (hi[i] - xs[i] if sg > 0 else xs[i] - lo[i])
    npt = {"n+1": n + 1, "mid": n + 1 + max(1, n // 2), "2n+1": 2 * n + 1}[st["nptclass"]]
    if st.get("special") == "solution_on_init_grid":
        # the solution is the point the default initialisation evaluates along coordinate i: x0 + rhobeg*e_i, rhobeg = 0.1*max(|x0|_inf, 1)
        # (boxes here keep every coordinate free and at least 0.8 > rhobeg wide on each side); b is computed from that very point, so the residual is 0 there
        x0 = np.where(np.abs(x0) < 0.25, 0.5, x0)
        if lo is not None:
            lo, hi = x0 - rng.uniform(0.8, 2.0, size=n), x0 + rng.uniform(0.8, 2.0, size=n)
        i = int(rng.integers(0, n))
        xs = x0.copy()
        xs[i] = x0[i] + 0.1 * max(float(np.max(np.abs(x0))), 1.0)
        b = A @ xs
        fstar = 0.0
    elif st.get("special") == "tiny_sensitivities":
        sc = 1e6
        A = A * 1e-8
        xs, x0 = xs * sc, x0 * sc
        if lo is not None:
            lo, hi = lo * sc, hi * sc
        b = A @ xs - r * 1e-4
        # optimality at xs: A'r = (multiplier pattern) is preserved by scaling r; f* = |r|^2
        fstar = float((r * 1e-4) @ (r * 1e-4))
    elif st.get("special") == "huge_sensitivities":
        big = float(rng.choice([1e7, 1e8]))
        A = A * big
        b = A @ xs - r * big
        fstar = float((r * big) @ (r * big))
    inst = dict(id=iid, seed=seed, n=n, m=m, prob="explicit", explicit=dict(A=A.tolist(), b=b.tolist(), x0=x0.tolist(), lo=None if lo is None else lo.tolist(),
                                                                            hi=None if hi is None else hi.tolist()),
                npt=npt, fstar=fstar, opttol=1e-6, pattern=st, timeout=120.0, maxfun=min(100 * (n + 1), 1000), rhoend=1e-8)
    if st["scaling"]:
        inst["scaling"] = True
    del inst["maxfun"]      # the solver's own default budget and radii are used; maxfun only enters the trace configuration below
    inst["maxfun_default"] = min(100 * (n + 1), 1000)
    return inst


def concretise_c06(st, seed, iid):
    rng = np.random.default_rng([seed, 6, iid])
    n = st["n"]
    m = n if st["mclass"] == "square" else n + int(rng.integers(1, 4))
    A = rand_A(rng, m, n, st["cond"])
    nA2 = float(np.linalg.norm(A, 2)) ** 2
    lam = float(rng.choice([1e-2, 1e-1, 1.0])) * nA2
    if st.get("special") == "lh_other_type" and st["reg"] == "l2":
        # the l2-norm's Lipschitz constant is lambda itself: an integer lambda, and data scaled so that it is of the usual relative size
        lam = float(rng.choice([1, 2, 3]))
        A = A * math.sqrt(lam / (float(rng.choice([1e-1, 1.0])) * nA2))
        nA2 = float(np.linalg.norm(A, 2)) ** 2
    status = st["status"]
    xs = np.zeros(n)
    gamma = np.zeros(n)
    lo = hi = None
    strong = st.get("special") == "strong_regulariser"
    if strong:
        lam = float(rng.choice([1e3, 1e4, 1e4])) * nA2
    if st["reg"] == "l1":
        if st["bounded"]:
            lo, hi = np.zeros(n), np.zeros(n)
        for i, s in enumerate(status):
            if s == "pos":
                xs[i], gamma[i] = rng.uniform(0.5, 2.0), -lam
            elif s == "neg":
                xs[i], gamma[i] = -rng.uniform(0.5, 2.0), lam
            elif s == "zero_strict":
                xs[i], gamma[i] = 0.0, rng.uniform(-0.5, 0.5) * (nA2 if strong else lam)     # strong: data of ordinary size, |A'r| << lambda
            elif s == "zero_kink":
                xs[i], gamma[i] = 0.0, float(rng.choice([-1.0, 1.0])) * lam
            elif s == "atL":
                xs[i] = rng.uniform(0.5, 2.0)
                gamma[i] = -lam + rng.uniform(0.3, 1.5) * max(lam, 0.2 * nA2)
            else:  # atU
                xs[i] = -rng.uniform(0.5, 2.0)
                gamma[i] = lam - rng.uniform(0.3, 1.5) * max(lam, 0.2 * nA2)
            if st["bounded"]:
                if s == "atL":
                    lo[i], hi[i] = xs[i], xs[i] + rng.uniform(1.6, 3.0)
                elif s == "atU":
                    lo[i], hi[i] = xs[i] - rng.uniform(1.6, 3.0), xs[i]
                else:
                    lo[i], hi[i] = xs[i] - rng.uniform(0.8, 2.0), xs[i] + rng.uniform(0.8, 2.0)
        hstar = lam * float(np.sum(np.abs(xs)))
    else:
        if status[0] == "nonzero":
            xs = rng.normal(size=n)
            xs *= rng.uniform(0.5, 2.0) / np.linalg.norm(xs)
            gamma = -lam * xs / np.linalg.norm(xs)
        else:
            g = rng.normal(size=n)
            gamma = 0.5 * lam * g / np.linalg.norm(g)
        hstar = lam * float(np.linalg.norm(xs))
    r = resid_for(rng, A, gamma)
    b = A @ xs - r
    Fstar = float(r @ r) + hstar
    x0 = xs + rng.normal(size=n)
    if st.get("special") == "zero_residual_on_init_grid":
        # consistent data b = A e_1, start at the origin with rhobeg = 1: the second initial point has zero residual but h = lambda there.
        # The optimum is not constructed here: it is computed by a long proximal-gradient run (strongly convex, deterministic)
        lam = 1.0 * nA2 * float(rng.choice([0.05, 0.2, 1.0]))
        e1 = np.zeros(n); e1[0] = 1.0
        b = A @ e1
        x = np.zeros(n)
        L = 2.0 * nA2
        for _ in range(200000):
            z = x - 2.0 * A.T @ (A @ x - b) / L
            xn = np.sign(z) * np.maximum(np.abs(z) - lam / L, 0.0)
            if np.max(np.abs(xn - x)) < 1e-15:
                x = xn
                break
            x = xn
        Fstar = float(np.sum((A @ x - b) ** 2)) + lam * float(np.sum(np.abs(x)))
        x0 = np.zeros(n)
        inst = dict(id=iid, seed=seed, n=n, m=m, prob="explicit", explicit=dict(A=A.tolist(), b=b.tolist(), x0=x0.tolist(), lo=None, hi=None), reg="l1", lam=lam,
                    args=bool(st["args"]), fstar=Fstar, opttol=1e-3, pattern=st, timeout=600.0, maxfun_default=min(100 * (n + 1), 1000), rhoend=1e-8, rhobeg=1.0)
        return inst
    if lo is not None:
        x0 = np.minimum(np.maximum(x0, lo + 0.1), hi - 0.1)
    inst = dict(id=iid, seed=seed, n=n, m=m, prob="explicit", explicit=dict(A=A.tolist(), b=b.tolist(), x0=x0.tolist(), lo=None if lo is None else lo.tolist(),
                                                                            hi=None if hi is None else hi.tolist()),
                reg=st["reg"], lam=lam, args=bool(st["args"]), fstar=Fstar, opttol=1e-3, pattern=st, timeout=600.0, maxfun_default=min(100 * (n + 1), 1000), rhoend=1e-8)
    if st.get("special") == "averaging":
        inst.update(nsamples="2", maxfun_default=min(200 * (n + 1), 2000))
    if st.get("special") == "lh_other_type":
        inst["lhtype"] = "int" if st["reg"] == "l2" else "float32"
    if st.get("special") == "soft_restarts_adding_points":
        inst["user_params"] = {"restarts.use_restarts": True, "restarts.increase_npt": True, "restarts.max_npt": n + 1 + int(rng.integers(1, 3)), "restarts.max_unsuccessful_restarts": 2}
        inst.update(restarts="soft", maxunsucc=2)      # (with restarts on a run legitimately goes on to the budget: the value clause applies, not the flag clause)
    if st.get("special") == "hard_restarts":
        inst["user_params"] = {"restarts.use_restarts": True, "restarts.use_soft_restarts": False, "restarts.max_unsuccessful_restarts": 2,
                               "restarts.hard.use_old_rk": bool(rng.random() < 0.5)}
        inst.update(restarts="hard" if inst["user_params"]["restarts.hard.use_old_rk"] else "hardnew", maxunsucc=2)
    return inst


def run_prop(prop, tier, nquick, nthorough, concretise, maxn):
    from . import solverchecks as sc
    V = vlib.Verdict(prop, tier)
    wd = vlib.scratch()
    states, r = c14.tlc_enum(wd, "Problems", maxn, "PROBLEM", ["TypeOK", "EmitInv"])
    states = [s for s in states if s["prop"] == prop]
    rng = np.random.default_rng([vlib.seed(), int(prop[1:])])
    want = nquick if tier == "quick" else nthorough
    if len(states) > want:
        idx = sorted(int(i) for i in rng.choice(len(states), size=want, replace=False))
        sel = [states[i] for i in idx]
        kinds = sorted(set(s.get("special", "none") for s in states) - {"none"})
        k = max(4, want // 12)
        for kind in kinds:          # every special class is represented, however many patterns it has
            spec = [s for s in states if s.get("special", "none") == kind]
            kk = 3 * k if kind == "strong_regulariser" else k      # the outcome depends on the data (about a third of the instances are sensitive): more of them
            sel += [spec[int(i)] for i in rng.choice(len(spec), size=min(kk, len(spec)), replace=False)]
    else:
        sel = states
    if prop == "C05":
        # dimensions beyond the enumerated ones, sampled from the same pattern sets (the property has no bound on n): many bounds active at the solution
        for j in range(12 if tier == "quick" else 400):
            n = int(rng.integers(8, 14))
            status = [str(rng.choice(["free", "atL", "atU"], p=[0.4, 0.3, 0.3])) for _ in range(n)]
            sel.append(dict(prop="C05", n=n, status=status, mclass=str(rng.choice(["square", "over"])), x0class=str(rng.choice(["interior", "onbound"])),
                            scaling=bool(rng.random() < 0.3), nptclass="n+1", cond=int(rng.choice([1, 10, 100, 1000])), reg="none", bounded=True, args=False, special="none"))
        # the two face classes at dimensions 4..6 (few free variables, most bounds active)
        for j in range(40 if tier == "quick" else 1200):
            n = int(rng.integers(4, 7))
            nfree = int(rng.integers(1, 3))
            status = [str(rng.choice(["atL", "atU"])) for _ in range(n)]
            for i in rng.choice(n, size=nfree, replace=False):
                status[int(i)] = "free"
            sel.append(dict(prop="C05", n=n, status=status, mclass=str(rng.choice(["square", "over"])), x0class="onbound", scaling=bool(rng.random() < 0.2), nptclass="n+1",
                            cond=int(rng.choice([1, 10, 100])), reg="none", bounded=True, args=False, special=["start_on_active_face", "warm_start"][j % 2]))
    insts = [concretise(st, vlib.seed(), i + 1) for i, st in enumerate(sel)]
    for inst in insts:
        st = inst["pattern"]
        inst["pclass"] = "n>=8,active>=half" if (st["n"] >= 8 and 2 * sum(1 for s in st["status"] if s != "free") >= st["n"]) else ""
    for inst in insts:
        inst["maxfun"] = inst.pop("maxfun_default")      # for the trace configuration (budget clause); solve() gets no maxfun argument
        inst["use_default_budget"] = True
    cov, _ = sc.trace_part(prop, insts, V, os.path.join(wd, "traces"))
    cov.update(states=r["distinct"], transitions=r["generated"], kkt_patterns_total=len(states), kkt_patterns_run=len(sel), exhaustive=len(sel) == len(states),
               rule="KKT patterns of Problems.tla (%s); instances constructed so that the optimality conditions hold at a known x*; default budget and radii" % prop)
    return V.finish(cov, "exploration", ["the optimum is known by construction (strict complementarity / prescribed subgradient), not from a second solver",
                                         "explored domain: n <= %d, cond(A) <= %s" % (maxn, "1e3" if prop == "C05" else "1e2"),
                                         "TLC enumerates and validates; it does not decide convergence (DESIGN.md 2.4)"])


def run(tier):
    return run_prop("C05", tier, 140, 5000, concretise_c05, 3 if tier == "quick" else 4)
