"""Code -> spec binding for spec/TrsboxLinear.tla: sys.monitoring LINE / PY_RETURN events on dfols.trust_region.trsbox_linear (no source change).  One snapshot at the
first statement of every loop pass (constrained directions, pass index) and one at the return, with numerical classes on the frame's own arrays: the returned point is inside
[a, b] (1e-12 relative) and the ball (1 + 1e-8), a constrained direction has a zero search component."""
import ast
import inspect
import sys

import numpy as np

TOOL = 4
_S = dict(installed=False, calls=[], cur=None, line=None, code=None, maxcalls=0)


def locate(module):
    try:
        tree = ast.parse(inspect.getsource(module))
    except (OSError, SyntaxError):
        return None
    fn = [n for n in tree.body if isinstance(n, ast.FunctionDef) and n.name == "trsbox_linear"]
    if len(fn) != 1:
        return None
    loops = [s for s in fn[0].body if isinstance(s, (ast.For, ast.While))]
    if len(loops) != 1:
        return None
    return loops[0].body[0].lineno


def _num(loc, x, final=False):
    a, b, Delta = loc["a"], loc["b"], float(loc["Delta"])
    with np.errstate(all="ignore"):
        x = np.asarray(x, dtype=float)
        if not np.all(np.isfinite(x)):
            return "finite"
        t = 1e-12 * max(1.0, float(np.max(np.abs(x))) if x.size else 0.0, Delta)
        # box and ball are judged on the RETURNED point only: the loop fixes the first coordinate (in index order) found beyond its bound, not the one
        # whose bound is met first along the ray, so an intermediate iterate can lie beyond another bound and is pulled back by a negative step in a
        # later pass (203 of 8 800 snapshots of the unchanged code) - the specification does not claim what the code does not do
        if final and (np.any(x < a - t) or np.any(x > b + t)):
            return "box"
        if final and float(np.linalg.norm(x)) > Delta * (1 + 1e-8):
            return "ball"
        dirn = loc.get("dirn")
        if dirn is not None and any(dirn[j] != 0.0 for j in loc["cons_dirns"]):
            return "constrained_direction_nonzero"
    return ""


def _snap(pc, loc, i, x):
    cur = _S["cur"]
    cons = sorted(set(int(j) + 1 for j in loc["cons_dirns"]))
    if cur["c0"] is None:
        cur["c0"] = len(cons)
    cur["ev"].append(dict(pc=pc, n=cur["n"], cons=cons, c0=cur["c0"], i=int(i), num=_num(loc, x, final=(pc == "done"))))


def _on_line(code, line):
    if code is not _S["code"] or line != _S["line"]:
        return sys.monitoring.DISABLE
    loc = sys._getframe(1).f_locals
    if loc["i"] == 0 or _S["cur"] is None:
        _S["cur"] = dict(ev=[], n=int(np.size(loc["g"])), c0=None)
    _snap("loop", loc, loc["i"], loc["x"])
    return None


def _on_return(code, offset, retval):
    if code is not _S["code"]:
        return None
    loc = sys._getframe(1).f_locals
    if "cons_dirns" not in loc:
        return None            # the Fortran route
    if _S["cur"] is None:      # n = 0
        _S["cur"] = dict(ev=[], n=int(np.size(loc["g"])), c0=None)
        _snap("loop", loc, 0, loc["x"])
    cur = _S["cur"]
    last = cur["ev"][-1]
    npass = len(loc["cons_dirns"]) - cur["c0"]
    _snap("done", loc, npass, retval)
    if len(_S["calls"]) < _S["maxcalls"]:
        _S["calls"].append(dict(n=cur["n"], ev=cur["ev"]))
    _S["cur"] = None
    return None


def install(maxcalls=20000):
    import dfols.trust_region as T
    _S["calls"], _S["cur"], _S["maxcalls"] = [], None, maxcalls
    line = locate(T)
    if line is None:
        return False
    _S["line"], _S["code"] = line, T.trsbox_linear.__code__
    mon = sys.monitoring
    if not _S["installed"]:
        mon.use_tool_id(TOOL, "dfv-trsbox-linear")
        mon.register_callback(TOOL, mon.events.LINE, _on_line)
        mon.register_callback(TOOL, mon.events.PY_RETURN, _on_return)
        _S["installed"] = True
    mon.set_local_events(TOOL, _S["code"], mon.events.LINE | mon.events.PY_RETURN)
    mon.restart_events()
    return True


def uninstall():
    if _S["installed"]:
        mon = sys.monitoring
        mon.set_local_events(TOOL, _S["code"], 0)
        mon.register_callback(TOOL, mon.events.LINE, None)
        mon.register_callback(TOOL, mon.events.PY_RETURN, None)
        mon.free_tool_id(TOOL)
        _S["installed"] = False


def take():
    out, _S["calls"] = _S["calls"], []
    return out
