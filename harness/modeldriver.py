"""Model-level traces (code -> spec) for C17 and C16: random operation sequences on the REAL dfols.model.Model, driven the
way the controller drives it, recorded through the same RecModel subclass as whole-solver runs and validated by the same
trace specification (DfolsTrace.tla, Prop = C17 / C16).

C16 identity classes (computed here, next to the inequality; tol = 1e3*eps*cond(W)*(1 + |points|_inf/spread), relative to the
data scale, W = scaled interpolation matrix of the current point set):
  interp      npt <= n+1 (incl. growing): every residual model reproduces the stored residual at every interpolation point
  normal_eq   npt  > n+1: the fit residual is orthogonal to the design columns (least-squares solution)
  lagrange    L_k(y_j) = delta_kj (npt <= n+1)   |   sum_k L_k(y) = 1 at every point y (regression)
  shift       a base shift changes neither the model values at fixed absolute points nor the assembled (g, H)
  qr          the cached factorisation, when declared current, reproduces the current interpolation matrix
"""
import math
import warnings

import numpy as np

from . import vlib, recorder, problems

EPS = np.finfo(float).eps


def _mk_run(inst, h=None):
    n, m = inst["n"], inst["m"]
    P = dict(resid=None, kwargs={}, x0=None, lo=None, hi=None, sets=[], hval=(lambda x: 0.0) if h is None else (lambda x: float(h(x))),
             A=None, b=None, c=None, n=n, m=m, lam=0.0, reg="none", noise=0.0)
    run = recorder.Run(inst, P)
    return run


class Driver(object):
    """plays the controller: 'evaluates' points (Call + LogEval events, point registry) and calls Model methods"""

    def __init__(self, inst, rng, h=None, lo=None, hi=None):
        self.inst, self.rng, self.h = inst, rng, h
        self.run = _mk_run(inst, h)
        self.run.P["lo"], self.run.P["hi"] = lo, hi
        self.undo = recorder.install(self.run)
        import dfols.controller as C
        self.Model = C.Model
        self.nf = 0
        self.nx = 0
        self.script = None   # residual to return at the next evaluation

    def evaluate(self, x_user, r, newpoint=True):
        self.script = np.asarray(r, dtype=float)
        self.run.P["resid"] = lambda x: self.script
        self.run.emit("EvalMark")
        self.run.objfun(np.asarray(x_user, dtype=float))
        self.nf += 1
        if newpoint:
            self.nx += 1
        self.run.on_log(self.nf, self.nx)
        return self.script.copy()

    def close(self):
        self.undo()


def rand_resid(rng, m, special=True):
    """random residual with ties / NaN / inf"""
    u = rng.random()
    r = np.round(rng.normal(size=m) * 2.0) / 2.0 if rng.random() < 0.6 else rng.normal(size=m)
    if special:
        if u < 0.07:
            r = r.copy(); r[int(rng.integers(0, m))] = np.nan
        elif u < 0.12:
            r = r.copy(); r[int(rng.integers(0, m))] = np.inf
        elif u < 0.15:
            r = r.copy(); r[int(rng.integers(0, m))] = -np.inf
        elif u < 0.18:
            r = r.copy(); r[int(rng.integers(0, m))] = 1e200
    return r


def c17_trace(inst):
    """one random operation sequence (length inst['len']) with ties, NaN, inf; with or without a regulariser"""
    try:
        return _c17_trace(inst)
    except recorder.WrapperError as e:
        return dict(machinery="model driver failed on %s: %s" % (inst.get("id"), e))


def _c17_trace(inst):
    rng = np.random.default_rng([int(inst["seed"]) & 0x7FFFFFFF, 17])
    n, m, cap = inst["n"], inst["m"], inst["cap"]
    lam = 0.25
    h = (lambda x: lam * float(np.sum(np.abs(x)))) if inst.get("reg") else None
    D = Driver(inst, rng, h=h)
    pool = [np.round(rng.normal(size=m)) for _ in range(3)]   # a small pool of residual vectors -> ties are frequent

    def resid():
        if rng.random() < 0.35:
            return pool[int(rng.integers(0, len(pool)))].copy()
        return rand_resid(rng, m)
    sc = None
    if inst.get("scaling"):
        sc = (np.round(rng.normal(size=n) * 4.0) / 4.0, np.array([float(v) for v in rng.choice([0.5, 2.0, 4.0], size=n)]))   # (shift, scale), dyadic

    def user(xs_abs):          # internal absolute coordinates -> user's coordinates (where the objective and the regulariser live)
        return xs_abs if sc is None else sc[0] + xs_abs * sc[1]
    with warnings.catch_warnings(), np.errstate(all="ignore"):
        warnings.simplefilter("ignore")
        x0 = np.round(rng.normal(size=n) * 4.0) / 4.0
        r0 = D.evaluate(user(x0), resid())
        M = D.Model(cap, x0.copy(), r0, -1e20 * np.ones(n), 1e20 * np.ones(n), [], 1, h=h, do_logging=False, scaling_changes=sc)
        ops = 0
        while ops < inst["len"]:
            ops += 1
            npt = M.npt()
            u = rng.random()
            if u < 0.34 or npt < 2:
                # replace (or, while growing, append) a point
                k = npt if (npt < M.num_pts and rng.random() < 0.7) else int(rng.integers(0, npt))
                xs = np.round(rng.normal(size=n) * 8.0) / 8.0 + 0.125 * ops
                r = D.evaluate(user(M.xbase + xs), resid())
                M.change_point(k, xs, r, D.nx)
            elif u < 0.52:
                k = int(rng.integers(0, npt))
                if M.nsamples[k] < 4:
                    xk = M.xbase + M.points[k, :]
                    # resample the stored point: same x, same point number as recorded for that slot is required by the
                    # identity class, so resampling is only done for the most recently evaluated point
                    if int(M.eval_num[k]) == D.nx:
                        r = D.evaluate(user(xk), resid(), newpoint=False)
                        M.add_new_sample(k, r)
            elif u < 0.60 and npt == M.num_pts and M.num_pts < cap + 2:
                xs = np.round(rng.normal(size=n) * 8.0) / 8.0 - 0.125 * ops
                r = D.evaluate(user(M.xbase + xs), resid())
                M.add_new_point(xs, r, D.nx)
            elif u < 0.70 and npt >= 2:
                k1, k2 = [int(v) for v in rng.choice(npt, size=2, replace=False)]
                M.swap_points(k1, k2)
            elif u < 0.76:
                M.shift_base(np.round(rng.normal(size=n) * 4.0) / 4.0)
            elif u < 0.86:
                if rng.random() < 0.5:
                    # save a freshly evaluated point (as the solver does on exits)
                    xs = np.round(rng.normal(size=n) * 8.0) / 8.0
                    r = D.evaluate(user(M.xbase + xs), resid())
                    M.save_point(M.xbase + xs, r, 1, D.nx, x_in_abs_coords=True)
                else:
                    # save the incumbent exactly as Controller.soft_restart does (passing the model's own views)
                    M.save_point(M.xopt(abs_coordinates=True), M.ropt(), M.nsamples[M.kopt], M.eval_num[M.kopt], x_in_abs_coords=True)
            elif u < 0.93 and npt >= 2:
                try:
                    M.interpolate_mini_models_svd()
                except Exception:  # noqa  (a numerical failure of the fit is not a bookkeeping event)
                    pass
            else:
                M.get_final_results()
        M.get_final_results()
    D.close()
    ev = D.run.ev
    cfg = dict(maxfun=10 ** 6, det=False, reg=bool(inst.get("reg")), hasproj=False, onesample=False, valid=True, mayraise=False, wantopt=False, ref=0, parallel=False,
               zero=0.0, r1e10=1e10, rhobeg=1.0, rhoenddoc=[1e-8] * 3, maxunsucc=10, resetrho=False, maxnpt=cap + 2)
    enc = recorder.encode_events(dict(cfg=cfg, ev=ev))
    counts = {}
    for e in ev:
        counts[e["ev"]] = counts.get(e["ev"], 0) + 1
    return dict(id=int(inst["id"]), cfg=enc["cfg"], ev=enc["ev"], summary=dict(outcome="return", nev=len(ev), counts=counts))


# ------------------------------------------------------------------------------------------------- C16

def _W(M):
    W, ls, rs = M.interpolation_matrix()
    return W


def _tol(M):
    try:
        W = _W(M)
        if not np.all(np.isfinite(W)):
            raise ValueError("non-finite system")
        sv = np.linalg.svd(W, compute_uv=False)
    except (ZeroDivisionError, ValueError, np.linalg.LinAlgError):
        # coincident points: the code's own scaling of the system divides by a zero distance - the identities are not evaluable on such a set
        return float("inf"), float("inf"), 0.0
    cond = float(sv[0] / sv[-1]) if sv[-1] > 0 else float("inf")
    spread = math.sqrt(float(np.max(M.distances_to_xopt())))
    pts = float(np.max(np.abs(M.xbase + M.points[:M.npt(), :])))
    return 1e3 * EPS * cond * (1.0 + pts / max(spread, 1e-300)), cond, spread


def identities(D, M, kinds):
    """evaluate the C16 identity classes on the current model; emit one Ident event per kind"""
    run = D.run
    n, npt = M.n(), M.npt()
    tol, cond, spread = _tol(M)
    if not (tol < 1e-3):
        run.emit("Ident", kind="any", ok=True, evaluable=False, err=0.0, bound=float(tol))
        return
    scale = max(1.0, float(np.max(np.abs(M.fval_v[:npt, :]))))
    xopt = M.xopt()
    Y = np.array([M.xpt(k) for k in range(npt)])
    # "reproduces the stored residual at every interpolation point": the point is where the driver EVALUATED the residual now stored in slot k
    # (its own record, by evaluation number), expressed relative to the current base - not the model's copy of the coordinates
    for k in range(npt):
        rec = run.points.get(int(M.eval_num[k]))
        if rec is not None:
            Y[k] = np.asarray(rec["x"], dtype=float) - M.xbase
    if "interp" in kinds:
        pred = np.array([M.model_value(Y[k], d_based_at_xopt=False, with_const_term=True) for k in range(npt)])
        E = pred - M.fval_v[:npt, :]
        if npt <= n + 1:
            err = float(np.max(np.abs(E))) / scale
            run.emit("Ident", kind="interp", ok=bool(err <= tol), evaluable=True, err=err, bound=float(tol))
        else:
            Wd = np.hstack([np.ones((npt, 1)), (Y - xopt) / max(spread, 1e-300)])
            err = float(np.max(np.abs(Wd.T @ E))) / (scale * npt)
            run.emit("Ident", kind="normal_eq", ok=bool(err <= tol), evaluable=True, err=err, bound=float(tol))
    if "lagrange" in kinds:
        cs, gs = M.lagrange_gradient(None)
        L = cs[None, :] + (Y - xopt) @ gs        # L[j, k] = L_k(y_j)
        if npt <= n + 1:
            err = float(np.max(np.abs(L - np.eye(npt))))
        else:
            ytest = xopt + D.rng.normal(size=(4, n)) * spread
            Lt = cs[None, :] + (ytest - xopt) @ gs
            err = max(float(np.max(np.abs(np.sum(L, axis=1) - 1.0))), float(np.max(np.abs(np.sum(Lt, axis=1) - 1.0))))
        run.emit("Ident", kind="lagrange", ok=bool(err <= tol), evaluable=True, err=err, bound=float(tol))
    # the same identities in the model's OWN coordinates (its stored points relative to xbase): there nothing depends on the size of xbase - that is
    # what the base point is for - so the bound is the conditioning of the point set alone, without the (|x| / spread) factor that the rounding of
    # fl(xbase + y) forces on the clauses above.  A fit that goes through absolute coordinates loses exactly that factor.
    tol_rel = 1e3 * EPS * cond
    Yr = np.array([M.xpt(k) for k in range(npt)])
    if "interp" in kinds:
        pred = np.array([M.model_value(Yr[k], d_based_at_xopt=False, with_const_term=True) for k in range(npt)])
        E = pred - M.fval_v[:npt, :]
        jn = float(np.linalg.norm(M.model_jac)) * float(np.max(np.abs(Yr))) if npt else 0.0      # size of the terms of J*y + c before cancellation
        tol_v = tol_rel * max(1.0, jn / scale)
        if npt <= n + 1:
            err = float(np.max(np.abs(E))) / scale
            run.emit("Ident", kind="interp_own_coordinates", ok=bool(err <= tol_v), evaluable=True, err=err, bound=float(tol_v))
        else:
            Wd = np.hstack([np.ones((npt, 1)), (Yr - xopt) / max(spread, 1e-300)])
            err = float(np.max(np.abs(Wd.T @ E))) / (scale * npt)
            run.emit("Ident", kind="normal_eq_own_coordinates", ok=bool(err <= tol_v), evaluable=True, err=err, bound=float(tol_v))
    if "lagrange" in kinds:
        cs, gs = M.lagrange_gradient(None)
        L = cs[None, :] + (Yr - xopt) @ gs
        err = float(np.max(np.abs(L - np.eye(npt)))) if npt <= n + 1 else float(np.max(np.abs(np.sum(L, axis=1) - 1.0)))
        run.emit("Ident", kind="lagrange_own_coordinates", ok=bool(err <= tol_rel), evaluable=True, err=err, bound=float(tol_rel))
    if "qr" in kinds and M.factorisation_current:
        W = _W(M)
        QR = M.Q @ M.R
        err = float(np.max(np.abs((QR.T if M.qr_of_transpose else QR) - W)))
        run.emit("Ident", kind="qr", ok=bool(err <= 1e3 * EPS * max(1.0, float(np.max(np.abs(W))))), evaluable=True, err=err, bound=1e3 * EPS)


def c16_trace(inst):
    try:
        return _c16_trace(inst)
    except recorder.WrapperError as e:
        return dict(machinery="model driver failed on %s: %s" % (inst.get("id"), e))


def _c16_trace(inst):
    rng = np.random.default_rng([int(inst["seed"]) & 0x7FFFFFFF, 16])
    n, m, cap = inst["n"], inst["m"], inst["cap"]
    spread = float(inst["spread"])
    D = Driver(inst, rng)
    A = rng.normal(size=(m, n))
    cvec = rng.normal(size=m)

    def resid_at(x):
        z = (x - base) / spread
        return A @ z + cvec + 0.5 * np.sin(z).sum()
    base = rng.normal(size=n) * float(inst["far"])
    with warnings.catch_warnings(), np.errstate(all="ignore"):
        warnings.simplefilter("ignore")
        x0 = base.copy()
        r0 = D.evaluate(x0, resid_at(x0))
        xl, xu = -1e20 * np.ones(n), 1e20 * np.ones(n)
        if inst.get("box"):
            # a box of 0.6 .. 3 spreads on each side of the first base point (tight against the base shifts, which move by about one spread):
            # every point the driver proposes is first brought into it, as the solver's own steps are
            xl = base - spread * np.array([float(v) for v in rng.choice([0.6, 1.5, 3.0], size=n)])
            xu = base + spread * np.array([float(v) for v in rng.choice([0.6, 1.5, 3.0], size=n)])
        M = D.Model(cap, x0.copy(), r0, xl, xu, [], 1, do_logging=False, precondition=bool(inst.get("precond", True)))

        def feas(xs):
            return np.minimum(np.maximum(xs, M.sl), M.su)
        ninit = int(inst["ninit"])
        for k in range(1, ninit):
            xs = rng.normal(size=n) * spread
            if k <= n:
                xs = np.zeros(n); xs[k - 1] = spread * (1.0 if rng.random() < 0.5 else -1.0)
            xs = feas(xs)
            r = D.evaluate(M.xbase + xs, resid_at(M.xbase + xs))
            M.change_point(k, xs, r, D.nx)
        for step in range(inst["len"]):
            u = rng.random()
            npt = M.npt()
            if u < 0.05 and npt >= 3 and M.kopt >= 1 and inst.get("resample", True):
                # history: an exact tie with the best point at an earlier index; a fit; another point replaced (worse) and the system factorised; that
                # point re-sampled - the re-selection of the best point (argmin, first index wins) now moves it to the earlier index; re-fit and check
                k = int(rng.integers(0, M.kopt))
                xs = feas(M.xopt() + rng.normal(size=n) * spread)
                r = D.evaluate(M.xbase + xs, -M.ropt())
                M.change_point(k, xs, r, D.nx)
                try:
                    M.interpolate_mini_models_svd()
                except Exception:  # noqa
                    pass
                j = [i for i in range(npt) if i not in (k, M.kopt)][0]
                xs = feas(M.xopt() + rng.normal(size=n) * spread)
                xj = M.xbase + xs
                r = D.evaluate(xj, resid_at(xj) + 3.0 * (1.0 + np.abs(M.ropt())))       # clearly worse than the tied pair
                M.change_point(j, xs, r, D.nx)
                try:
                    M.factorise_geom_system()
                    r2 = D.evaluate(xj, resid_at(xj) + 3.0 * (1.0 + np.abs(M.ropt())) + 0.01 * rng.normal(size=m), newpoint=False)
                    M.add_new_sample(j, r2)
                    if bool(M.interpolate_mini_models_svd()[0]):
                        identities(D, M, ("interp", "lagrange", "qr"))
                except Exception:  # noqa
                    pass
                continue
            if u < 0.35:
                k = npt if (npt < M.num_pts and rng.random() < 0.6) else int(rng.integers(0, npt))
                xs = feas(M.xopt() + rng.normal(size=n) * spread * float(rng.choice([0.3, 1.0, 2.0])))
                w = rng.random()
                if w < 0.12 and k < npt and k != M.kopt:
                    # in-place re-evaluation: the very coordinates already stored in slot k, with a residual good enough to make it the best point
                    xs = M.points[k, :].copy()
                    r = D.evaluate(M.xbase + xs, 0.5 * M.ropt())
                elif w < 0.22 and k < M.kopt:
                    # an exact tie with the best point (residual -r has the same sum of squares) at an EARLIER index: the next re-selection of the best
                    # point (argmin, first index wins) moves it there
                    r = D.evaluate(M.xbase + xs, -M.ropt())
                else:
                    r = D.evaluate(M.xbase + xs, resid_at(M.xbase + xs))
                M.change_point(k, xs, r, D.nx)
            elif u < 0.50 and npt >= 2:
                # base shift: model values at fixed absolute points and (g, H) must not change
                ok_fit = False
                try:
                    ok_fit = bool(M.interpolate_mini_models_svd()[0])
                except Exception:  # noqa
                    pass
                if ok_fit:
                    tol, cond, sp = _tol(M)
                    pts_abs = [M.xbase + M.xopt() + rng.normal(size=n) * sp for _ in range(3)]
                    before = [M.model_value(p - M.xbase, d_based_at_xopt=False, with_const_term=True) for p in pts_abs]
                    g0, H0 = M.build_full_model()
                    shift = M.xopt().copy() if (rng.random() < 0.7 or inst.get("box")) else rng.normal(size=n) * sp      # (the base stays inside a finite box)
                    M.shift_base(shift)
                    after = [M.model_value(p - M.xbase, d_based_at_xopt=False, with_const_term=True) for p in pts_abs]
                    g1, H1 = M.build_full_model()
                    sc = max(1.0, float(np.max(np.abs(M.fval_v[:M.npt(), :]))))
                    # values: relative to the data scale, allowing for the rounding of J*(shift) at the size of the shift
                    jn = float(np.linalg.norm(M.model_jac))
                    bound_v = tol + 64 * EPS * jn * (float(np.linalg.norm(shift)) + float(np.max(np.abs(M.xbase)))) / sc
                    err_v = max(float(np.max(np.abs(np.array(a) - np.array(b)))) for a, b in zip(after, before)) / sc
                    err_g = float(np.max(np.abs(g1 - g0))) / max(1.0, float(np.max(np.abs(g0))))
                    err_H = float(np.max(np.abs(H1 - H0))) / max(1.0, float(np.max(np.abs(H0))))
                    bound_g = tol + 64 * EPS * jn * jn * (float(np.linalg.norm(shift)) + float(np.max(np.abs(M.xbase)))) / max(1.0, float(np.max(np.abs(g0))))
                    if tol < 1e-3:
                        D.run.emit("Ident", kind="shift", ok=bool(err_v <= bound_v and err_g <= bound_g and err_H <= 64 * EPS), evaluable=True,
                                   err=max(err_v, err_g, err_H), bound=float(max(bound_v, bound_g)))
                else:
                    M.shift_base(M.xopt().copy())
            elif u < 0.58 and npt >= 2:
                k1, k2 = [int(v) for v in rng.choice(npt, size=2, replace=False)]
                M.swap_points(k1, k2)
            elif u < 0.66 and inst.get("resample", True):
                # a further (noisy) sample of the most recently evaluated point: unequal sample counts across the point set
                ks = [k for k in range(npt) if int(M.eval_num[k]) == D.nx and M.nsamples[k] < 4]
                if ks:
                    xk = M.xbase + M.points[ks[0], :]
                    r = D.evaluate(xk, resid_at(xk) + 0.01 * rng.normal(size=m), newpoint=False)
                    M.add_new_sample(ks[0], r)
            elif u < 0.72 and npt == M.num_pts and M.num_pts < cap + 1:
                xs = feas(M.xopt() + rng.normal(size=n) * spread)
                r = D.evaluate(M.xbase + xs, resid_at(M.xbase + xs))
                M.add_new_point(xs, r, D.nx)
            elif npt >= 2:
                ok = False
                try:
                    ok = bool(M.interpolate_mini_models_svd()[0])
                except Exception:  # noqa
                    pass
                if ok:
                    identities(D, M, ("interp", "lagrange", "qr"))
                else:
                    # the fit itself must succeed on a point set whose (independently computed) conditioning makes the identities evaluable
                    tol, cond, sp = _tol(M)
                    D.run.emit("Ident", kind="fit_succeeds", ok=not bool(tol < 1e-3), evaluable=bool(tol < 1e-3), err=1.0, bound=float(tol))
            if rng.random() < 0.25 and M.npt() >= 2:
                # a Lagrange query between mutations (uses the cached factorisation if it is declared current)
                try:
                    M.factorise_geom_system()
                    identities(D, M, ("lagrange", "qr"))
                except Exception:  # noqa
                    pass
    D.close()
    ev = D.run.ev
    cfg = dict(maxfun=10 ** 6, det=False, reg=False, hasproj=False, onesample=False, valid=True, mayraise=False, wantopt=False, ref=0, parallel=False,
               zero=0.0, r1e10=1e10, rhobeg=1.0, rhoenddoc=[1e-8] * 3, maxunsucc=10, resetrho=False, maxnpt=cap + 2)
    nident = sum(1 for e in ev if e["ev"] == "Ident" and e.get("evaluable"))
    worst = max([e["err"] / e["bound"] for e in ev if e["ev"] == "Ident" and e.get("evaluable") and e["bound"] > 0] or [0.0])
    for e in ev:   # floats that need no ranking
        if e["ev"] == "Ident":
            e["err"] = 0.0
            e["bound"] = 0.0
    enc = recorder.encode_events(dict(cfg=cfg, ev=ev))
    counts = {}
    for e in ev:
        counts[e["ev"]] = counts.get(e["ev"], 0) + 1
    return dict(id=int(inst["id"]), cfg=enc["cfg"], ev=enc["ev"], summary=dict(outcome="return", nev=len(ev), counts=counts, nident=nident, worst=worst))
