"""C13, inside the bound-constrained geometry step: spec/TrsboxLinear.tla model-checked and monitored calls of the real trsbox_linear (class patterns of Kernels.tla)
validated against it (spec/TrsboxLinearTrace.tla).  Internal bookkeeping of the kernel: failures are conformance NOTES, never violations of C13."""
import json
import os

import numpy as np

from . import vlib


def model_check(wd, n):
    os.makedirs(wd, exist_ok=True)
    cfg = os.path.join(wd, "L.cfg")
    with open(cfg, "w") as f:
        f.write("SPECIFICATION Spec\nCONSTANTS\n  N = %d\nINVARIANT Inv_ConsCount\nINVARIANT Inv_PassBound\nINVARIANT Inv_Exhaustion\nPROPERTY MonoProp\nPROPERTY Terminates\nCHECK_DEADLOCK FALSE\n" % n)
    r = vlib.run_tlc("TrsboxLinear.tla", cfg, wd, workers=2, heap="1g", timeout=600)
    if not r["ok"] and not r["violated"]:
        raise vlib.MachineryError("TLC did not complete on TrsboxLinear.tla:\n%s" % r["out"][-1500:])
    return dict(N=n, distinct=r["distinct"], violated=r["violated"])


def worker(args):
    tid, states, seed = args
    vlib.import_dfols()
    from . import linmon, kernels
    if not linmon.install():
        return dict(structure=False, calls=[])
    for si, st in enumerate(states):
        rng = np.random.default_rng([seed, 1313, tid, si])
        try:
            kernels.geom_call(st, rng)
        except AssertionError:
            linmon._S["cur"] = None
    calls = linmon.take()
    linmon.uninstall()
    return dict(structure=True, calls=calls)


def _validate(calls, sub):
    os.makedirs(sub, exist_ok=True)
    p = os.path.join(sub, "traces.json")
    with open(p, "w") as f:
        json.dump([dict(id=i + 1, ev=c["ev"]) for i, c in enumerate(calls)], f)
    r = vlib.run_tlc("TrsboxLinearTrace.tla", "TrsboxLinearTrace.cfg", sub, workers=1, heap="2g", env={"TRACE_FILE": p}, timeout=1800)
    if not r["ok"]:
        raise vlib.MachineryError("trace validation against TrsboxLinearTrace.tla did not complete:\n%s" % r["out"][-2000:])
    return {int(rec[1]): set(c for c, _ in rec[2]) for rec in vlib.extract_printed(r["out"], "DONE")}


def selftest(calls, sub):
    """corrupted copies of accepted calls must be rejected with the expected clause (the binding can say no)"""
    import copy
    muts, want = [], []
    for c in [c for c in calls if len(c["ev"]) >= 3][:30]:
        a = copy.deepcopy(c["ev"])
        del a[1]
        muts.append(dict(ev=a))
        want.append({"trsbox_linear_step_not_in_spec"})
        if c["ev"][-1]["cons"]:
            b = copy.deepcopy(c["ev"])
            b[-1]["cons"] = b[-1]["cons"][1:]
            muts.append(dict(ev=b))
            want.append({"trsbox_linear_direction_released", "trsbox_linear_inv_cons_count", "trsbox_linear_step_not_in_spec"})
    if not muts:
        return dict(corrupted=0, rejected=0)
    got = _validate(muts, sub)
    for i, w in enumerate(want):
        if not (w & got.get(i + 1, set())):
            raise vlib.MachineryError("TrsboxLinearTrace.tla accepted a corrupted call (expected one of %s, got %s)" % (sorted(w), sorted(got.get(i + 1, set()))))
    return dict(corrupted=len(muts), rejected=len(muts))


def part(V, tier, wd, patterns):
    import multiprocessing as mp
    mc = model_check(os.path.join(wd, "lin_model"), 4 if tier == "quick" else 6)
    for v in mc["violated"]:
        V.report(dict(clause="model_" + v, site="TrsboxLinear.tla", cls="model", what="TrsboxLinear.tla: TLC reports %s violated" % v, instance=dict(kind="model", module="TrsboxLinear.tla")))
    nch = 16
    chunks = [(i + 1, patterns[i::nch], vlib.seed()) for i in range(nch) if patterns[i::nch]]
    with mp.get_context("fork").Pool(min(16, vlib.NCPU)) as pool:
        res = pool.map(worker, chunks)
    calls = [c for r in res for c in r["calls"]]
    notes, gen = {}, 0
    if calls:
        sub = os.path.join(wd, "lin_traces")
        os.makedirs(sub, exist_ok=True)
        p = os.path.join(sub, "traces.json")
        with open(p, "w") as f:
            json.dump([dict(id=i + 1, ev=c["ev"]) for i, c in enumerate(calls)], f)
        r = vlib.run_tlc("TrsboxLinearTrace.tla", "TrsboxLinearTrace.cfg", sub, workers=1, heap="2g", env={"TRACE_FILE": p}, timeout=1800)
        if not r["ok"]:
            raise vlib.MachineryError("trace validation against TrsboxLinearTrace.tla did not complete:\n%s" % r["out"][-2000:])
        gen = r["generated"]
        done = vlib.extract_printed(r["out"], "DONE")
        if len(done) != len(calls):
            raise vlib.MachineryError("monitored trsbox_linear calls not consumed to their end (%d of %d)" % (len(done), len(calls)))
        shown = 0
        for rec in done:
            for clause, l in rec[2]:
                notes[clause] = notes.get(clause, 0) + 1
                if shown < 3:
                    shown += 1
                    print("NOTE: monitored trsbox_linear call %s: %s at snapshot %s - the kernel's active-set bookkeeping departs from TrsboxLinear.tla (conformance, not a verdict)" % (rec[1], clause, l))
    st = selftest(calls, os.path.join(wd, "lin_selftest")) if calls and not notes else dict(corrupted=0, rejected=0)
    return dict(model=mc, binding_selftest=st, loop_structure_recognised=all(r["structure"] for r in res), monitored_calls=len(calls), snapshots=sum(len(c["ev"]) for c in calls), tlc_states=gen,
                max_passes=max([max(e["i"] for e in c["ev"]) for c in calls] or [0]), conformance_notes=notes)
