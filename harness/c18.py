"""C18 - trust-region radii and the diagnostic table obey their invariants.

  M  Dfols.tla radius levels (C18_Radii) with liveness; Radii.tla: Controller.reduce_rho as exact arithmetic over every class of rho/rhoend
     (just above 1 ... 4096, the branch boundaries bracketed) and of tr_radius.alpha1 / alpha2, with the radius clauses as invariants
  R  every state of Radii.tla is replayed on the REAL Controller.reduce_rho (stub object, dyadic data): rho and delta must be bit-identical
  T  solver corpus: every row of soln.diagnostic_info and every live write to delta / rho (DfolsTrace.tla clauses), DfolsCtl on a sample
"""
import json
import os

import numpy as np

from . import vlib

UNIT = 2.0 ** -20          # rhoend = 4096 units = 2^-8


def tlc_radii(wd, as_found=False):
    os.makedirs(wd, exist_ok=True)
    cfg = os.path.join(wd, "Radii.cfg")
    with open(cfg, "w") as f:
        f.write("SPECIFICATION Spec\nCONSTANTS\n  DefRhoBelowRhoend = %s\nINVARIANT TypeOK\nINVARIANT RhoDecreases\nINVARIANT RhoNotBelowRhoend\nINVARIANT RhoPositive\n"
                "INVARIANT DeltaNotBelowRho\nINVARIANT EmitInv\nCHECK_DEADLOCK FALSE\n" % ("TRUE" if as_found else "FALSE"))
    r = vlib.run_tlc("Radii.tla", cfg, os.path.join(wd, "r"), workers=2, heap="1g", timeout=600)
    states = []
    for line in r["out"].splitlines():
        line = line.strip()
        if line.startswith('"RADII'):
            states.append(json.loads(json.loads(line)[len("RADII"):]))
    return states, r


def replay_radii(states):
    dfols = vlib.import_dfols()
    import dfols.controller as C

    class Stub(object):
        pass
    bad = []
    for st in states:
        o = Stub()
        o.rho, o.rhoend, o.delta, o.last_successful_iter = st["rho"] * UNIT, 4096 * UNIT, 3.0 * st["rho"] * UNIT, 0
        a1, a2 = st["a1"] / 1024.0, st["a2"] / 1024.0
        params = lambda key: {"tr_radius.alpha1": a1, "tr_radius.alpha2": a2}[key]
        try:
            C.Controller.reduce_rho(o, 7, params)
        except Exception as e:  # noqa
            bad.append(dict(state=st, clause="reduce_rho_as_specified", what="reduce_rho raised %r" % (e,)))
            continue
        want_rho, want_delta = st["newrho"] * UNIT, st["newdelta"] * UNIT
        if o.rho != want_rho or o.delta != want_delta:
            bad.append(dict(state=st, clause="reduce_rho_as_specified",
                            what="rho/rhoend = %g, alpha1 = %g, alpha2 = %g: the real reduce_rho gives rho = %r, delta = %r; Radii.tla says rho = %r, delta = %r (rhoend = %r)"
                                 % (st["q8"] / 8.0, a1, a2, o.rho, o.delta, want_rho, want_delta, 4096 * UNIT)))
        else:
            # the clauses of the property on the REAL values
            if not (o.rho >= o.rhoend and o.delta >= o.rho and 0 < o.rho < st["rho"] * UNIT):
                bad.append(dict(state=st, clause="reduce_rho_radius_clauses", what="after reduce_rho: rho = %r, delta = %r, rhoend = %r, old rho = %r" % (o.rho, o.delta, o.rhoend, st["rho"] * UNIT)))
    return bad


def radii_part(tier, V, wd):
    states, r = tlc_radii(os.path.join(wd, "rep"))
    vlib.tlc_machinery_check(r, "Radii.tla")
    for v in r["violated"]:
        if v != "EmitInv":
            V.report(dict(clause=v, site="Radii.tla", cls="model", what="TLC: %s violated in Radii.tla" % v, instance=dict(kind="model", module="Radii.tla")))
    if not states:
        raise vlib.MachineryError("Radii.tla printed no states")
    # sensitivity: the code as found (rho may fall below rhoend) must make TLC report RhoNotBelowRhoend
    _, r2 = tlc_radii(os.path.join(wd, "asfound"), as_found=True)
    if "RhoNotBelowRhoend" not in r2["violated"]:
        raise vlib.MachineryError("Radii.tla sensitivity: DefRhoBelowRhoend = TRUE did not make TLC report RhoNotBelowRhoend (got %s)" % r2["violated"])
    bad = replay_radii(states)
    for b in bad[:12]:
        V.report(dict(clause=b["clause"], site="reduce_rho", cls="q8=%d,a1=%d,a2=%d" % (b["state"]["q8"], b["state"]["a1"], b["state"]["a2"]), what=b["what"],
                      instance=dict(kind="radii_state", state=b["state"])))
    return dict(radii=dict(states=r["distinct"], replayed_on_real_reduce_rho=len(states), mismatches=len(bad), sensitivity=dict(flag="DefRhoBelowRhoend", expected="RhoNotBelowRhoend", detected=True)))


def run(tier):
    from . import solverchecks as sc
    V = vlib.Verdict("C18", tier)
    wd = vlib.scratch()
    cov = {}
    cov.update(sc.model_part("C18", tier, V, os.path.join(wd, "model"), with_liveness=True))
    rcov = radii_part(tier, V, os.path.join(wd, "radii"))
    insts = sc.corpus_C18(tier)
    tcov, _ = sc.trace_part("C18", insts, V, os.path.join(wd, "traces"))
    cov.update(tcov)
    cov.update(rcov)
    cov["states"] = cov.get("states", 0) + rcov["radii"]["states"]
    cov["traces_validated_against_impl"] = cov.get("traces_validated_against_impl", 0) + rcov["radii"]["replayed_on_real_reduce_rho"]
    cov["rule"] = sc.rule_text("C18") + "; Radii.tla: every (ratio class, alpha1, alpha2) state replayed on the real Controller.reduce_rho with exact comparison"
    return V.finish(cov, "model_checking", list(sc.ASSUME) + ["Radii.tla replay: dyadic radii (rhoend = 2^-8) and factors k/1024, for which binary64 arithmetic of reduce_rho is exact"])
