"""C01 - bounds never violated at any evaluation point.
  M  BaseShift.tla: the design question in a 3-bit floating-point format - with the final clip in user coordinates (the repaired design that is
     now in /repo) no operand tuple can leave [xl, xu]; exhaustive over all operands of the format (and one base shift in the thorough tier).
     The as-found design (no final clip) must be refuted by TLC (sensitivity, thorough tier).
  T  (decider) every evaluation point and the returned x of a corpus of real runs, classified against the caller's own bound arrays with
     exact binary64 comparisons; DfolsTrace.tla requires every class inside.
"""
import os

from . import vlib


def baseshift(wd, name, P, E, cliplast, shifts, timeout=3000):
    cfg = os.path.join(wd, name + ".cfg")
    os.makedirs(wd, exist_ok=True)
    with open(cfg, "w") as f:
        f.write("SPECIFICATION Spec\nCONSTANTS\n  P = %d\n  E = %d\n  ClipLast = %s\n  Shifts = %d\nINVARIANT C01_InBounds\nCHECK_DEADLOCK FALSE\n"
                % (P, E, "TRUE" if cliplast else "FALSE", shifts))
    return vlib.run_tlc("BaseShift.tla", cfg, os.path.join(wd, name), heap="8g", timeout=timeout)


def run(tier):
    from . import solverchecks as sc
    V = vlib.Verdict("C01", tier)
    wd = vlib.scratch()
    runs = [("p3e3", 3, 3, 0), ("p2e3_shift", 2, 3, 1)]
    if tier == "thorough":
        runs += [("p3e3_shift", 3, 3, 1), ("p4e2", 4, 2, 0)]
    states = trans = 0
    detail = []
    for name, P, E, sh in runs:
        r = baseshift(os.path.join(wd, "bs"), name, P, E, True, sh)
        vlib.tlc_machinery_check(r, "BaseShift.tla/" + name)
        states += r["distinct"]
        trans += r["generated"]
        detail.append(dict(config=name, P=P, E=E, shifts=sh, clip_last=True, distinct=r["distinct"], violated=r["violated"]))
        for v in r["violated"]:
            V.report(dict(clause=v, site="BaseShift.tla", cls=name, what="TLC: the clip-last design leaves the bounds in the small format (%s)" % name,
                          instance=dict(kind="model", module="BaseShift.tla", P=P, E=E, shifts=sh)))
    sens = None
    if tier == "thorough":
        r = baseshift(os.path.join(wd, "bs"), "asfound", 3, 3, False, 0)
        if "C01_InBounds" not in r["violated"]:
            raise vlib.MachineryError("sensitivity: the as-found base-shift arithmetic was not refuted by TLC")
        sens = dict(config="as found (no final clip)", refuted=True)
    insts = sc.corpus_C01(tier)
    cov, _ = sc.trace_part("C01", insts, V, os.path.join(wd, "traces"))
    ncalls = cov["event_counts"].get("Call", 0)
    cov.update(states=states, transitions=trans, model_runs=detail, sensitivity=sens, evaluation_points_classified=ncalls, rule=sc.rule_text("C01"))
    return V.finish(cov, "exploration", list(sc.ASSUME) + ["BaseShift.tla is evidence in a 2-4 bit format, not a proof about binary64; the binding is the trace clause bounds_exact"])
