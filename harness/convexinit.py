"""Independent classification of the convex-constrained initialisation (controller.py:150-229; specification: spec/ConvexInit.tla).

The code builds n directions D[k] = P(x0 + s*e_k) - x0 (s = min(1, rhobeg), P = alternating projections onto the user's sets), and repairs a
rank-deficient D in three phases:
   1. deterministic: for every k whose R-diagonal entry (unpivoted QR of D) is below the tolerance, try the negative step P(x0 - s*e_k) - x0 and keep
      it if the rank goes up;
   2. random sign patterns (numpy's global generator);  3. random directions (numpy's global generator).
Phases 2 and 3 are the recorded finding KF-C19-convex-init-rank-repair; `classify` says, from the inputs alone, whether they are reached:
   "coordinate"      D has full rank straight away
   "negative_step"   phase 1 restores full rank   (the run must not depend on the generator's state)
   "random_needed"   phase 1 leaves D rank-deficient (the known finding applies)
"""
import numpy as np


def _dykstra(P, x0, max_iter, tol):
    x = x0.copy()
    p = len(P)
    y = np.zeros((p, len(x0)))
    n = 0
    cI = float("inf")
    while n < max_iter and cI >= tol:
        cI = 0.0
        for i in range(p):
            prev_x = x.copy()
            x = np.asarray(P[i](prev_x - y[i, :]), dtype=float)
            prev_y = y[i, :].copy()
            y[i, :] = x - (prev_x - prev_y)
            cI += float(np.linalg.norm(prev_y - y[i, :]) ** 2)
        n += 1
    return x


def _rank(D, tol):
    R = np.linalg.qr(D, mode="r")
    d = np.abs(np.diag(R))
    return int(np.sum(d > tol)), d


def classify(projections, xbase, step, max_iter=100, d_tol=1e-10, r_tol=1e-18):
    n = len(xbase)
    D = np.zeros((n, n))
    for k in range(n):
        e = np.zeros(n)
        e[k] = step
        D[k, :] = _dykstra(projections, xbase + e, max_iter, d_tol) - xbase
    rank, diag = _rank(D, r_tol)
    if rank == n:
        return "coordinate"
    k = 0
    while rank != n and k < n:
        if diag[k] < r_tol:
            e = np.zeros(n)
            e[k] = -step
            old = D[k, :].copy()
            D[k, :] = _dykstra(projections, xbase + e, max_iter, d_tol) - xbase
            rank2, _ = _rank(D, r_tol)
            if rank2 <= rank:
                D[k, :] = old
            rank = rank2
        k += 1
    rank, diag = _rank(D, r_tol)
    return "negative_step" if rank == n else "random_needed"
