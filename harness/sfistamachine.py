"""C13 / C06, inside the regularised step solver: spec/Sfista.tla model-checked (with its sensitivity variant) and monitored calls of the real ctrsbox_sfista
inside whole regularised solver runs validated against it (spec/SfistaTrace.tla).  Everything the monitor can see is internal bookkeeping of the kernel
(iteration counts, which count the smoothing parameter was computed from): reported as conformance NOTES, never as violations of C13."""
import json
import os
import warnings

from . import vlib


def _cfg(path, uncapped):
    with open(path, "w") as f:
        f.write("SPECIFICATION Spec\nCONSTANTS\n  Cap = 5\n  TMax = 8\n  SmoothFromUncapped = %s\nINVARIANT Inv_CountBounds\nINVARIANT Inv_SmoothingFromRunCount\n"
                "INVARIANT Inv_NoEarlyExit\nPROPERTY Terminates\nCHECK_DEADLOCK FALSE\n" % ("TRUE" if uncapped else "FALSE"))


def model_check(wd):
    out = {}
    for name, unc in (("asis", False), ("uncapped", True)):
        sub = os.path.join(wd, name)
        os.makedirs(sub, exist_ok=True)
        cfg = os.path.join(sub, "S.cfg")
        _cfg(cfg, unc)
        r = vlib.run_tlc("Sfista.tla", cfg, sub, workers=2, heap="1g", timeout=600)
        if not r["ok"] and not r["violated"]:
            raise vlib.MachineryError("TLC did not complete on Sfista.tla (%s):\n%s" % (name, r["out"][-1500:]))
        out[name] = dict(distinct=r["distinct"], violated=r["violated"])
    if "Inv_SmoothingFromRunCount" not in out["uncapped"]["violated"]:
        raise vlib.MachineryError("Sfista.tla sensitivity: SmoothFromUncapped = TRUE did not make TLC report Inv_SmoothingFromRunCount (got %s)" % out["uncapped"]["violated"])
    return out


def worker(inst):
    vlib.import_dfols()
    from . import sfistamon, recorder
    if not sfistamon.install(maxcalls=60):
        return dict(structure=False, calls=[])
    try:
        with warnings.catch_warnings():
            warnings.simplefilter("ignore")
            recorder.record(inst, timeout=float(inst.get("timeout", 300.0)))
    except recorder.WrapperError as e:
        sfistamon.uninstall()
        return dict(machinery="recorder failed on instance %s: %s" % (inst.get("id"), e))
    calls = sfistamon.take()
    sfistamon.uninstall()
    return dict(structure=True, calls=calls)


def selftest(calls, sub):
    """corrupted copies of accepted calls must be rejected with the expected clause (the binding can say no)"""
    import copy
    muts, want = [], []
    for c in [c for c in calls if len(c["ev"]) >= 4][:20]:
        a = copy.deepcopy(c["ev"])
        del a[1]
        muts.append(dict(ev=a))
        want.append({"sfista_step_not_in_spec"})
        b = copy.deepcopy(c["ev"])
        for e in b:
            e["ucount"] += 1
        muts.append(dict(ev=b))
        want.append({"sfista_inv_smoothing_from_run_count", "sfista_initial_state"})
        d = copy.deepcopy(c["ev"])[:-2]
        muts.append(dict(ev=d))
        want.append({"sfista_no_terminal_state"})
    if not muts:
        return dict(corrupted=0, rejected=0)
    os.makedirs(sub, exist_ok=True)
    p = os.path.join(sub, "traces.json")
    with open(p, "w") as f:
        json.dump([dict(id=i + 1, ev=m["ev"]) for i, m in enumerate(muts)], f)
    r = vlib.run_tlc("SfistaTrace.tla", "SfistaTrace.cfg", sub, workers=1, heap="2g", env={"TRACE_FILE": p}, timeout=1800)
    if not r["ok"]:
        raise vlib.MachineryError("self-test of SfistaTrace.tla did not complete:\n%s" % r["out"][-1500:])
    got = {int(rec[1]): set(c for c, _ in rec[2]) for rec in vlib.extract_printed(r["out"], "DONE")}
    for i, w in enumerate(want):
        if not (w & got.get(i + 1, set())):
            raise vlib.MachineryError("SfistaTrace.tla accepted a corrupted call (expected one of %s, got %s)" % (sorted(w), sorted(got.get(i + 1, set()))))
    return dict(corrupted=len(muts), rejected=len(muts))


def part(V, tier, wd, insts):
    import multiprocessing as mp
    mc = model_check(os.path.join(wd, "sfista_model"))
    for v in mc["asis"]["violated"]:
        V.report(dict(clause="model_" + v, site="Sfista.tla", cls="asis", what="Sfista.tla: TLC reports %s violated" % v, instance=dict(kind="model", module="Sfista.tla")))
    ctx = mp.get_context("fork")
    with ctx.Pool(min(16, vlib.NCPU)) as pool:
        res = pool.map(worker, insts, chunksize=1)
    for r in res:
        if "machinery" in r:
            raise vlib.MachineryError(r["machinery"])
    calls = [c for r in res for c in r["calls"]]
    notes = {}
    gen = 0
    if calls:
        sub = os.path.join(wd, "sfista_traces")
        os.makedirs(sub, exist_ok=True)
        p = os.path.join(sub, "traces.json")
        with open(p, "w") as f:
            json.dump([dict(id=i + 1, ev=c["ev"]) for i, c in enumerate(calls)], f)
        r = vlib.run_tlc("SfistaTrace.tla", "SfistaTrace.cfg", sub, workers=1, heap="2g", env={"TRACE_FILE": p}, timeout=1800)
        if not r["ok"]:
            raise vlib.MachineryError("trace validation against SfistaTrace.tla did not complete:\n%s" % r["out"][-2000:])
        gen = r["generated"]
        done = vlib.extract_printed(r["out"], "DONE")
        if len(done) != len(calls):
            raise vlib.MachineryError("monitored S-FISTA calls not consumed to their end (%d of %d)" % (len(done), len(calls)))
        shown = 0
        for rec in done:
            for clause, l in rec[2]:
                notes[clause] = notes.get(clause, 0) + 1
                if shown < 3:
                    shown += 1
                    print("NOTE: monitored ctrsbox_sfista call %s: %s at snapshot %s - the kernel's iteration-count bookkeeping departs from Sfista.tla (conformance, not a verdict)" % (rec[1], clause, l))
    st = selftest(calls, os.path.join(wd, "sfista_selftest")) if calls and not notes else dict(corrupted=0, rejected=0)
    return dict(model=mc, binding_selftest=st, loop_structure_recognised=all(r["structure"] for r in res), monitored_calls=len(calls), snapshots=sum(len(c["ev"]) for c in calls), tlc_states=gen,
                cap_binding_calls=sum(1 for c in calls if c["ev"][0]["theory"] > c["ev"][0]["cap"]), conformance_notes=notes)
