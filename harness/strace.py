"""Solver-trace pipeline: instances -> recorded traces of the real code -> TLC (DfolsTrace.tla) -> per-trace verdicts."""
import concurrent.futures as cf
import hashlib
import json
import math
import os
import time

import numpy as np

from . import vlib, recorder


def _digest(*arrs):
    h = hashlib.sha1()
    for a in arrs:
        if a is None:
            h.update(b"None")
        else:
            h.update(np.ascontiguousarray(np.asarray(a, dtype=float)).tobytes())
    return h.hexdigest()[:16]


def roundtrip_ok(s):
    """C20: to_dict -> strict JSON -> from_dict reproduces every field exactly (None -> NaN), same str()."""
    import dfols
    try:
        d = s.to_dict()
        hasinf = any(a is not None and np.any(np.isinf(np.asarray(a, dtype=float))) for a in (s.x, s.resid, s.jacobian, [s.obj]))
        if s.diagnostic_info is not None and not hasinf:
            # the same for an infinite entry of the diagnostic table (a row recorded while an overflow-sized value sat in the interpolation set)
            for c in s.diagnostic_info.columns:
                hasinf = hasinf or any(isinstance(u, float) and math.isinf(u) for u in s.diagnostic_info[c].tolist())
        txt = json.dumps(d, allow_nan=hasinf)  # strict JSON when NaN replacement is on (infinite entries are outside the property's letter)
        d2 = json.loads(txt)
        s2 = dfols.solver.OptimResults.from_dict(d2)

        def same(a, b):
            if a is None or b is None:
                return a is None and b is None
            a, b = np.asarray(a, dtype=float), np.asarray(b, dtype=float)
            return a.shape == b.shape and bool(np.array_equal(a, b, equal_nan=True))
        ok = same(s.x, s2.x) and same(s.resid, s2.resid) and same(s.jacobian, s2.jacobian) and same(s.jacmin_eval_nums, s2.jacmin_eval_nums)
        ok = ok and same([s.obj], [s2.obj])
        ok = ok and (int(s.nf), int(s.nx), int(s.nruns), int(s.flag), str(s.msg), int(s.xmin_eval_num)) == (s2.nf, s2.nx, s2.nruns, s2.flag, s2.msg, s2.xmin_eval_num)
        if s.diagnostic_info is None:
            ok = ok and s2.diagnostic_info is None
        else:
            a, b = s.diagnostic_info, s2.diagnostic_info
            ok = ok and b is not None and list(map(str, a.columns)) == list(map(str, b.columns)) and len(a) == len(b)
            if ok:
                for c in a.columns:
                    for u, v in zip(a[c].tolist(), b[c].tolist()):
                        if isinstance(u, float) and isinstance(v, float):
                            ok = ok and ((math.isnan(u) and math.isnan(v)) or u == v)
                        elif u is None or (isinstance(u, float) and math.isnan(u)):
                            ok = ok and (v is None or (isinstance(v, float) and math.isnan(v)))
                        else:
                            ok = ok and (u == v)
        ok = ok and (str(s) == str(s2))
        d3 = s.to_dict(replace_nan=False)
        json.dumps(d3)  # plain JSON-serialisable data
        return bool(ok)
    except Exception:  # noqa
        return False


def jac_class(run, s, inst):
    """C11: soln.jacobian vs an independent fit (user coordinates) of the recorded residuals at the points named by
    jacmin_eval_nums.  'ok' | 'viol' | 'na' (precondition false) | 'ne' (not evaluable: conditioning too poor for the tolerance)."""
    P = run.P
    if s.jacobian is None or s.jacmin_eval_nums is None or P["sets"] or inst.get("reg", "none") != "none":
        return "na", 0.0
    en = [int(v) for v in s.jacmin_eval_nums]
    n = P["n"]
    if len(en) < n + 1 or any(e == 0 for e in en):
        return "na", 0.0  # precondition: fully initialised point set
    if any(e not in run.points for e in en) or len(set(en)) != len(en):
        return "viol", 0.0
    if P["noise"] > 0 or inst.get("fault"):
        return "na", 0.0
    X = np.array([run.points[e]["x"] for e in en])
    R = np.array([np.mean(np.array(run.points[e]["rs"]), axis=0) for e in en])
    if not (np.all(np.isfinite(X)) and np.all(np.isfinite(R))):
        return "na", 0.0
    # centre and scale like the solver's own preconditioning, to measure the conditioning of the point set
    k0 = int(np.argmin(np.sum(R * R, axis=1)))
    D = X - X[k0]
    spread = float(np.sqrt(np.max(np.sum(D * D, axis=1))))
    if spread == 0.0:
        return "ne", 0.0
    W = np.hstack([np.ones((len(en), 1)), D / spread])
    sv = np.linalg.svd(W, compute_uv=False)
    cond = float(sv[0] / sv[-1]) if sv[-1] > 0 else float("inf")
    sol = np.linalg.lstsq(W, R, rcond=None)[0]
    J = sol[1:, :].T / spread
    Js = np.asarray(s.jacobian, dtype=float)
    if Js.shape != J.shape:
        return "viol", 0.0
    nJ = float(np.linalg.norm(J))
    err = float(np.linalg.norm(Js - J)) / max(nJ, 1e-300)
    bound = 1e3 * recorder.EPS * cond * (1.0 + float(np.max(np.abs(X))) / spread) * max(1.0, float(np.linalg.norm(R)) / (spread * max(nJ, 1e-300)))
    if not (bound < 1e-3):
        return "ne", err
    return ("ok" if err <= bound else "viol"), err


def extra_return(run, s, kw):
    inst = run.inst
    d = dict(c04ok=True, optok=True, rt_ok=True, jacok="na", digest="")
    if s.flag != -1:
        d["rt_ok"] = roundtrip_ok(s)
        with np.errstate(all="ignore"):
            fin = [pp["fs"][0] for pp in run.points.values() if len(pp["fs"]) and pp["fs"][0] == pp["fs"][0] and math.isfinite(pp["fs"][0])]
            if fin:
                mn = min(fin)
                d["c04ok"] = bool(s.obj <= mn + 1e-12 * abs(mn))
        d["jacok"], d["jacerr"] = jac_class(run, s, inst)
        d["digest"] = _digest(s.x, s.resid, s.jacobian, [s.obj], s.jacmin_eval_nums)
        if inst.get("fstar") is not None:
            fs = float(inst["fstar"])
            tol = float(inst.get("opttol", 1e-6))
            if inst.get("reg", "none") == "none":
                # C05: "returns a feasible point whose objective is within ...": the objective AT the returned point, recomputed from the data
                xr = np.asarray(s.x, dtype=float)
                ftrue = float(np.sum(np.asarray(run.P["resid"](xr), dtype=float) ** 2))
                d["optok"] = bool(ftrue - fs <= tol * (1.0 + fs))
            else:
                d["optok"] = bool(s.obj - fs <= tol * (1.0 + fs))
                # ... and the objective AT the returned point, recomputed from the data and the caller's own h (a stored value that is too low must not pass for optimality)
                hfun = run.P["kwargs"].get("h")
                if hfun is not None and s.x is not None:
                    xr = np.asarray(s.x, dtype=float)
                    ftrue = float(np.sum(np.asarray(run.P["resid"](xr), dtype=float) ** 2)) + float(hfun(xr, *tuple(run.P["kwargs"].get("argsh", ()))))
                    d["optok"] = d["optok"] and bool(ftrue - fs <= tol * (1.0 + fs))
            d["fstar"] = fs
            sa = run.P.get("seen_args")
            if sa is not None and inst.get("args"):
                # extra arguments for h and for the proximal operator arrive unchanged (C06)
                lam = run.P["lam"]
                d["optok"] = d["optok"] and len(sa["h"]) > 0 and len(sa["prox"]) > 0 and all(t == (lam, "tag-h") for t in sa["h"]) and all(t == (lam, "tag-prox") for t in sa["prox"])
    return d


def record_one(inst):
    """Worker entry: returns an encoded trace dict or a machinery-failure record."""
    try:
        if inst.get("warm"):
            # C19: an unrelated solve in the same process before the recorded one (repeated invocation must not leak state)
            import dfols
            import warnings
            with warnings.catch_warnings():
                warnings.simplefilter("ignore")
                np.random.seed(4242)
                dfols.solve(lambda x: np.array([10.0 * (x[1] - x[0] ** 2), 1.0 - x[0]]), np.array([-1.2, 1.0]), maxfun=25,
                            user_params={"init.random_initial_directions": True})
        out = recorder.record(inst, timeout=float(inst.get("timeout", 60.0)), extra_return=extra_return, rng_state=inst.get("rng_state"))
    except recorder.WrapperError as e:
        return dict(machinery="recorder failed on instance %s: %s" % (inst.get("id"), e))
    ev = out["ev"]
    n = int(inst["n"])
    up = inst.get("user_params") or {}
    nrest = sum(1 for e in ev if e["ev"] == "RunBegin") + sum(1 for e in ev if e["ev"] == "SoftEnd") + 3
    onesample = inst.get("nsamples", "1") == "1"
    det = onesample and not inst.get("noise_sd") and not inst.get("noise")
    if inst.get("fault") and inst.get("restarts") == "hardnew":
        det = False     # a fault at the RE-evaluation of a hard restart's start point makes the objective a non-deterministic function of x (C04 does not apply; C08 does)
    npt0 = None
    for e in ev:
        if e["ev"] == "RunBegin":
            npt0 = e["npt"]
            break
    cfg = dict(maxfun=int(inst.get("maxfun", 60)), det=bool(det), reg=inst.get("reg", "none") != "none", hasproj=bool(inst.get("proj")),
               onesample=bool(onesample), valid=bool(inst.get("valid", True)), mayraise=bool(up.get("interpolation.throw_error_on_nans", False) or inst.get("mayraise", False)),
               wantopt=inst.get("fstar") is not None, ref=int(inst.get("ref", 0)), parallel=bool(up.get("init.run_in_parallel", False)), zero=0.0, r1e10=1e10,
               rhobeg=float(out["run"].P["kwargs"].get("rhobeg", 0.1 if inst.get("scaling") else 0.1 * max(float(np.max(np.abs(out["run"].P["x0"]))), 1.0))),
               rhoenddoc=recorder.doc_rhoend(inst, nrest),
               maxunsucc=int(inst.get("maxunsucc", up.get("restarts.max_unsuccessful_restarts", 10))),
               resetrho=bool(up.get("growing.reset_rho", False)),
               maxnpt=int(max(npt0 or (n + 1), up.get("restarts.max_npt", 0), (npt0 or n + 1) + int(inst.get("incnpt") or 0))))
    enc = recorder.encode_events(dict(cfg=cfg, ev=ev))
    if inst.get("rng_state") is not None:
        # C19: the rank encoding is a function of the WHOLE trace (one new value anywhere shifts every rank), so the event-for-event comparison with the
        # reference run is made on a digest of the raw event; the first differing digest is then the true first difference
        import hashlib
        for e_raw, e_enc in zip(ev, enc["ev"]):
            e_enc["dg"] = hashlib.sha1(json.dumps(e_raw, sort_keys=True, default=repr).encode()).hexdigest()[:16]
    counts = {}
    for e in ev:
        counts[e["ev"]] = counts.get(e["ev"], 0) + 1
    ret = [e for e in ev if e["ev"] in ("Return", "Raise", "Hang")]
    summ = dict(outcome=out["outcome"], nev=len(ev), counts=counts, initrepair=out["run"].initrepair or "", growsafety="yes" if out["run"].growsafety else "no")
    if ret and ret[-1]["ev"] == "Return":
        r = ret[-1]
        summ.update(flag=r["flag"], msgc=r["msgc"], nf=r["nf"], nruns=r["nruns"], jacok=r.get("jacok"), jacerr=r.get("jacerr"))
    return dict(id=int(inst["id"]), cfg=enc["cfg"], ev=enc["ev"], summary=summ, refid=inst.get("refid"), top=enc.get("top"))


def record_many(insts, nproc=None):
    nproc = nproc or min(vlib.NCPU, 16)
    ids = [i["id"] for i in insts]
    if len(set(ids)) != len(ids):
        raise vlib.MachineryError("corpus has duplicate instance ids: %s" % sorted(set(k for k in ids if ids.count(k) > 1))[:5])
    if len(insts) <= 2 or nproc == 1:
        res = [record_one(i) for i in insts]
    else:
        import multiprocessing as mp
        ctx = mp.get_context("fork")
        if any(i.get("rng_state") is not None for i in insts):
            # C19: every instance in a process of its own, forked from this one (which has not run a solve): the reference run starts from pristine
            # module / class state, the 'warm' copy from the state an unrelated solve leaves behind
            with ctx.Pool(nproc, maxtasksperchild=1) as pool:
                res = pool.map(record_one, insts, chunksize=1)
        else:
            with ctx.Pool(nproc) as pool:
                res = pool.map(record_one, insts, chunksize=max(1, min(8, len(insts) // (nproc * 2) or 1)))
    for r in res:
        if "machinery" in r:
            raise vlib.MachineryError(r["machinery"])
    return res


def _tlc_chunk(args):
    prop, chunk_path, workdir, defs = args
    cfg_path = os.path.join(workdir, "T.cfg")
    os.makedirs(workdir, exist_ok=True)
    with open(cfg_path, "w") as f:
        f.write('SPECIFICATION Spec\nCONSTANTS\n  Prop = "%s"\n  DefNaNCompare = %s\n  DefSwapNs = %s\n  DefStaleFactor = FALSE\nINVARIANT Report\nCHECK_DEADLOCK FALSE\n'
                % (prop, "TRUE" if defs.get("DefNaNCompare") else "FALSE", "TRUE" if defs.get("DefSwapNs") else "FALSE"))
    res = vlib.run_tlc("DfolsTrace.tla", cfg_path, workdir, workers=1, heap="2g", env={"TRACE_FILE": chunk_path}, timeout=3000)
    return res


def validate(prop, traces, workdir, nproc=None, chunk_events=25000, defs=None):
    """Validate encoded traces against DfolsTrace.tla.  Returns dict(per={id: [[clause, l], ...]}, generated, distinct, wall)."""
    defs = defs or {}
    nproc = nproc or min(vlib.NCPU, 12)
    # traces that name a reference trace (C19) stay in the chunk of their reference; cfg.ref = 1-based position of the reference in the chunk
    groups, bykey = [], {}
    for t in traces:
        key = t.get("refid") or t["id"]
        if key not in bykey:
            bykey[key] = []
            groups.append(bykey[key])
        bykey[key].append(t)
    chunks, cur, n = [], [], 0
    for g in groups:
        g = sorted(g, key=lambda t: 0 if not t.get("refid") else 1)
        for t in g:
            cur.append(dict(id=t["id"], cfg=dict(t["cfg"]), ev=t["ev"], refid=t.get("refid")))
            n += len(t["ev"])
        if n >= chunk_events:
            chunks.append(cur)
            cur, n = [], 0
    if cur:
        chunks.append(cur)
    for ch in chunks:
        pos = {t["id"]: i + 1 for i, t in enumerate(ch)}
        for t in ch:
            rid = t.pop("refid", None)
            t["cfg"]["ref"] = pos.get(rid, 0) if rid else 0
            if rid and rid not in pos:
                raise vlib.MachineryError("reference trace %s of trace %s is missing" % (rid, t["id"]))
    jobs = []
    for ci, ch in enumerate(chunks):
        wd = os.path.join(workdir, "chunk%d" % ci)
        os.makedirs(wd, exist_ok=True)
        p = os.path.join(wd, "traces.json")
        with open(p, "w") as f:
            json.dump(ch, f)
        jobs.append((prop, p, wd, defs))
    t0 = time.time()
    per, gen, dist = {}, 0, 0
    with cf.ThreadPoolExecutor(max_workers=nproc) as ex:
        results = list(ex.map(_tlc_chunk, jobs))
    for (prop_, p, wd, _), res, ch in zip(jobs, results, chunks):
        if not res["ok"]:
            lines = res["out"].splitlines()
            errs = [i for i, ln in enumerate(lines) if ln.startswith("Error") or "exception" in ln.lower()]
            ctx = "\n".join("\n".join(lines[i:i + 8]) for i in errs[:3])
            raise vlib.MachineryError("trace validation did not complete (%s):\n%s\n...\n%s" % (p, ctx[:3000], "\n".join(lines[-5:])))
        gen += res["generated"]
        dist += res["distinct"]
        done = vlib.extract_printed(res["out"], "DONE")
        for rec in done:
            per[int(rec[1])] = rec[2]
        missing = [t["id"] for t in ch if t["id"] not in per]
        if missing:
            raise vlib.MachineryError("traces not consumed to their end: %s (chunk %s)" % (missing[:5], p))
    return dict(per=per, generated=gen, distinct=dist, wall=time.time() - t0, nchunks=len(chunks))
