"""Code -> spec binding for the machine INSIDE the step kernel (spec/Trsbox.tla): sys.monitoring line events on the code objects of
dfols.trust_region.trsbox and alt_trust_step, no source change.

One snapshot is taken at the first statement of every loop pass (located through the AST of the module as it is on disk, not by
line number): the conjugate-gradient loop of trsbox, the outer and the inner loop of alt_trust_step; one more at the return.  A
snapshot is the state of Trsbox.tla BEFORE that pass - xbdi, nact, iterc, itermax, beta == 0, the pass counters - plus numerical
classes that only exist in the implementation, evaluated at the hook in binary64 on the frame's own arrays:

  box        sl - xopt <= d <= su - xopt for every component, up to the rounding of the step-length division (relative 1e-9 of the scale)
  ball       sum(d_free^2) <= delsq budget, i.e. |d|^2 <= delta^2 * (1 + 1e-6)
  frozen     a variable that was fixed at the previous snapshot has the same d[i], exactly
  gnew       gnew = g + H d to 1e-6 of |g| + |H||d|   (the returned-gradient clause of C12, at EVERY pass)
  qred       qred never decreases and equals q(0) - q(d) to 1e-6 of the terms of q   (QRED drives three of the exit tests)

TrsboxTrace.tla decides whether consecutive snapshots are a step of Trsbox.tla and evaluates the invariants on every observed state.
"""
import ast
import inspect
import sys

import numpy as np

TOOL = 3
_state = dict(installed=False, lines=None, calls=None, cur=None, structure=None, maxcalls=0)


def locate(module):
    """first statements of the three loops, from the module's AST; None when the loop structure is not the one Trsbox.tla describes"""
    try:
        src = inspect.getsource(module)
        tree = ast.parse(src)
    except (OSError, SyntaxError):
        return None
    fn = {n.name: n for n in tree.body if isinstance(n, ast.FunctionDef)}
    if "trsbox" not in fn or "alt_trust_step" not in fn:
        return None

    def loops(body):
        return [s for s in body if isinstance(s, (ast.For, ast.While))]
    cg = loops(fn["trsbox"].body)
    outer = loops(fn["alt_trust_step"].body)
    if len(cg) != 1 or len(outer) != 1:
        return None
    inner = [s for s in loops(outer[0].body) if not (isinstance(s, ast.For) and isinstance(s.target, ast.Name) and s.target.id == "i")]
    if len(inner) != 1:
        return None
    return dict(cg=cg[0].body[0].lineno, alt=outer[0].body[0].lineno, altin=inner[0].body[0].lineno)


def _xb(xbdi):
    return [0 if v == 0 else (1 if v < 0 else 2) for v in xbdi.tolist()]


def _num(cur, d, gnew, qred, xb):
    """numerical classes on the real arrays; '' when all hold, else the first failing clause; 'dom' outside the scale domain (not judged)"""
    g, H, xopt, sl, su, delta = cur["g"], cur["H"], cur["xopt"], cur["sl"], cur["su"], cur["delta"]
    if not cur["dom"]:
        return "dom"
    with np.errstate(all="ignore"):
        if not (np.all(np.isfinite(d)) and np.all(np.isfinite(gnew)) and np.isfinite(qred)):
            return "finite"
        scale = delta + float(np.max(np.abs(d)))
        tol = 1e-9 * scale
        if np.any(d < np.minimum(sl - xopt, 0.0) - tol) or np.any(d > np.maximum(su - xopt, 0.0) + tol):
            return "box"
        if float(d @ d) > delta * delta * (1.0 + 1e-6):
            return "ball"
        pd, pxb = cur["prev_d"], cur["prev_xb"]
        if pd is not None and any(b != 0 and d[i] != pd[i] for i, b in enumerate(pxb)):
            return "frozen"
        Hd = H @ d
        absH = cur["absH"]
        gscale = float(np.max(np.abs(g))) + float(np.max(absH @ np.abs(d))) if d.size else 0.0
        if float(np.max(np.abs(gnew - (g + Hd)))) > 1e-6 * gscale + 1e-300:
            return "gnew"
        if qred < cur["prev_qred"]:
            return "qred_monotone"
        q = float(g @ d + 0.5 * (d @ Hd))
        qs = float(np.abs(g) @ np.abs(d) + 0.5 * (np.abs(d) @ (absH @ np.abs(d))))
        if abs(qred + q) > 1e-6 * qs + 1e-300:
            return "qred_is_decrease"
    cur["prev_d"] = d.copy()
    cur["prev_xb"] = list(xb)
    cur["prev_qred"] = float(qred)
    return ""


def _begin(loc):
    g = np.array(loc["g"], dtype=float)
    H = np.array(loc["H"], dtype=float)
    delta = float(loc["delta"])
    with np.errstate(all="ignore"):
        gmax = float(np.max(np.abs(g))) if g.size else 0.0
        hmax = float(np.max(np.abs(H))) if H.size else 0.0
        # same scale domain as the in-solver clauses of C12 (ten decades wider than the property's): absolute DFBOLS thresholds sit outside it
        dom = bool(np.isfinite(gmax) and np.isfinite(hmax) and 1e-8 <= gmax <= 1e8 and 1e-8 <= delta <= 1e8 and hmax * delta <= 1e8 * gmax)
    return dict(g=g, H=H, absH=np.abs(H), xopt=np.array(loc["xopt"], dtype=float), sl=np.array(loc["sl"], dtype=float), su=np.array(loc["su"], dtype=float),
                delta=delta, dom=dom, n=int(g.size), ev=[], prev_d=None, prev_xb=None, prev_qred=0.0, passes=0, outer=0, inner=0, rst=0, fix0=None, lastfixed=None, alt=False,
                maxinner=0)


def _snap(cur, pc, xb, nact, iterc, itermax, bz, gz, num):
    nfixed = sum(1 for b in xb if b != 0)
    if cur["fix0"] is None:
        cur["fix0"] = nfixed
    cur["ev"].append(dict(pc=pc, n=cur["n"], xb=xb, nact=int(nact), fix0=cur["fix0"], iterc=int(iterc), itermax=int(itermax), bz=bool(bz), gz=bool(gz), passes=cur["passes"], outer=cur["outer"],
                          inner=cur["inner"], rst=cur["rst"], num=num))
    cur["lastfixed"] = nfixed


def _on_line(code, line):
    S = _state
    L = S["lines"]
    if code is S["code_trs"]:
        if line != L["cg"]:
            return sys.monitoring.DISABLE
        loc = sys._getframe(1).f_locals
        cur = S["cur"]
        if loc["ii"] == 0 or cur is None:
            cur = S["cur"] = _begin(loc)
        xb = _xb(loc["xbdi"])
        nfixed = sum(1 for b in xb if b != 0)
        if cur["lastfixed"] is not None and nfixed > cur["lastfixed"]:
            cur["rst"] += 1           # the previous pass fixed a variable and the loop went on: a restart of the CG iteration
        beta = loc["beta"]
        gz = ("iact" in loc) and loc["iact"] is None and beta == 0.0 and loc["ii"] > 0
        _snap(cur, "cg", xb, loc["nact"], loc["iterc"], loc.get("itermax", 0), beta == 0.0, gz, _num(cur, loc["d"], loc["gnew"], loc["qred"], xb))
        cur["passes"] += 1
        return None
    if code is S["code_alt"]:
        if line != L["alt"] and line != L["altin"]:
            return sys.monitoring.DISABLE
        fr = sys._getframe(1)
        loc = fr.f_locals
        cur = S["cur"]
        if cur is None:
            return None               # alt_trust_step called directly (not through trsbox): not a behaviour of the machine
        back = fr.f_back.f_locals if fr.f_back is not None and fr.f_back.f_code is S["code_trs"] else None
        if back is None:
            return None
        cur["alt"] = True
        xb = _xb(loc["xbdi"])
        num = _num(cur, loc["d"], loc["gnew"], loc["qred"], xb)
        if line == L["alt"]:
            _snap(cur, "alt", xb, loc["nact"], back["iterc"], back.get("itermax", 0), False, False, num)
            cur["outer"] += 1
            cur["fresh"] = True
        else:
            if cur.get("fresh"):
                cur["inner"], cur["fresh"] = 0, False     # AltSucc: a new outer pass starts its inner loop from 0
            _snap(cur, "altin", xb, loc["nact"], back["iterc"], back.get("itermax", 0), False, False, num)
            cur["inner"] += 1
            cur["maxinner"] = max(cur["maxinner"], cur["inner"])
        return None
    return sys.monitoring.DISABLE


def _on_return(code, offset, retval):
    S = _state
    cur = S["cur"]
    if cur is None:
        return None
    fr = sys._getframe(1)
    loc = fr.f_locals
    if code is S["code_alt"]:
        back = fr.f_back.f_locals if fr.f_back is not None and fr.f_back.f_code is S["code_trs"] else None
        if back is None or not cur["alt"]:
            return None
        xb = _xb(loc["xbdi"])
        _snap(cur, "done", xb, loc["nact"], back["iterc"], back.get("itermax", 0), False, False, "")
        cur["closed"] = True
        return None
    if code is S["code_trs"]:
        if "xbdi" not in loc:
            return None               # an assertion / the Fortran route: no machine run
        if not cur.get("closed"):
            xb = _xb(loc["xbdi"])
            _snap(cur, "done", xb, loc["nact"], loc["iterc"], loc.get("itermax", 0), False, False, "")
        if len(S["calls"]) < S["maxcalls"]:
            S["calls"].append(dict(n=cur["n"], ev=cur["ev"], dom=cur["dom"], maxinner=cur["maxinner"],
                                   inp=[[float(v).hex() for v in np.ravel(cur[k])] for k in ("xopt", "g", "H", "sl", "su")] + [float(cur["delta"]).hex()]))
        S["ncalls"] += 1
        S["cur"] = None
    return None


def install(maxcalls=100000):
    """start monitoring the kernel of the dfols that is imported now; returns False when the loop structure is not the modelled one"""
    import dfols.trust_region as T
    S = _state
    S["calls"], S["cur"], S["maxcalls"], S["ncalls"] = [], None, maxcalls, 0
    lines = locate(T)
    S["structure"] = lines is not None
    if lines is None:
        return False
    S["lines"] = lines
    S["code_trs"], S["code_alt"] = T.trsbox.__code__, T.alt_trust_step.__code__
    mon = sys.monitoring
    if not S["installed"]:
        mon.use_tool_id(TOOL, "dfv-trsbox")
        mon.register_callback(TOOL, mon.events.LINE, _on_line)
        mon.register_callback(TOOL, mon.events.PY_RETURN, _on_return)
        S["installed"] = True
    for c in (S["code_trs"], S["code_alt"]):
        mon.set_local_events(TOOL, c, mon.events.LINE | mon.events.PY_RETURN)
    mon.restart_events()
    return True


def uninstall():
    S = _state
    if S["installed"]:
        mon = sys.monitoring
        for c in (S["code_trs"], S["code_alt"]):
            mon.set_local_events(TOOL, c, 0)
        mon.register_callback(TOOL, mon.events.LINE, None)
        mon.register_callback(TOOL, mon.events.PY_RETURN, None)
        mon.free_tool_id(TOOL)
        S["installed"] = False


def take():
    """monitored calls collected so far (and forget them)"""
    S = _state
    out, S["calls"] = S["calls"], []
    return out
