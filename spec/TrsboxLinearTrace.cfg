SPECIFICATION TSpec
CONSTANTS
  N = 1
INVARIANT Report
CHECK_DEADLOCK FALSE
