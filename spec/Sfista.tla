--------------------------------------------- MODULE Sfista ---------------------------------------------
(* The iteration-count machine of dfols.trust_region.ctrsbox_sfista (smoothed FISTA, the regularised step solver; C13, C06).

   The kernel fixes, before its loop, (i) the number of iterations it will run - the theoretical count of Beck's Theorem 10.57,
   capped by func_tol.max_iters - and (ii) the smoothing parameter u = 2*delta / (count * L_h), and then runs exactly that many
   passes with no early exit.  The two must come from the SAME count: a smoothing parameter taken from the uncapped count while
   the loop runs the capped one (seeded change R7_C06_a) leaves every step a small fraction of the trust region.  The arithmetic of
   a pass is not modelled; what is kept is the count bookkeeping, one action per loop pass, observed at the first statement of the
   pass on the real frame (harness/sfistamon.py): the specification's `theory` is recomputed by the harness from the call's own
   arguments, `ucount` is read back from the code's u as 2*delta / (u * L_h).
   SmoothFromUncapped = FALSE describes the code; TRUE the seeded change, for sensitivity: TLC then reports SmoothingFromRunCount. *)
EXTENDS Naturals, TLC

CONSTANTS Cap, TMax, SmoothFromUncapped
VARIABLE s

Min(a, b) == IF a <= b THEN a ELSE b
InitRec(th, cap) == [pc |-> "loop", k |-> 0, theory |-> th, cap |-> cap, maxit |-> Min(th, cap),
                     ucount |-> IF SmoothFromUncapped THEN th ELSE Min(th, cap)]
Succ(r) == IF r.pc = "loop"
             THEN IF r.k < r.maxit THEN {[r EXCEPT !.k = @ + 1]} ELSE {[r EXCEPT !.pc = "done"]}
             ELSE {}

Init == s \in {InitRec(th, cap) : th \in 1..TMax, cap \in 1..Cap}
Next == s' \in Succ(s)
Spec == Init /\ [][Next]_s /\ WF_s(Next)

CountBounds(r) == r.k <= r.maxit /\ r.maxit <= r.cap /\ r.maxit <= r.theory /\ r.maxit >= 1
SmoothingFromRunCount(r) == r.ucount = r.maxit
NoEarlyExit(r) == r.pc = "done" => r.k = r.maxit
Inv_CountBounds == CountBounds(s)
Inv_SmoothingFromRunCount == SmoothingFromRunCount(s)
Inv_NoEarlyExit == NoEarlyExit(s)
Terminates == <>(s.pc = "done")
=============================================================================================================
