--------------------------------------- MODULE TrsboxLinearTrace ---------------------------------------
(* Monitored calls of the real trsbox_linear against TrsboxLinear.tla (same scheme as TrsboxTrace.tla); total verdicts. *)
EXTENDS TrsboxLinear, Sequences, Json, IOUtils

Traces == JsonDeserialize(IOEnv.TRACE_FILE)
NTr == Len(Traces)
VARIABLES tid, l, viol
tvars == <<s, tid, l, viol>>
Ev == Traces[tid].ev
Obs(e) == [pc |-> e.pc, n |-> e.n, cons |-> {e.cons[k] : k \in 1..Len(e.cons)}, c0 |-> e.c0, i |-> e.i]
StateClauses(r, e, pos) ==
     (IF ConsCount(r) THEN <<>> ELSE << <<"trsbox_linear_inv_cons_count", pos>> >>)
  \o (IF PassBound(r) THEN <<>> ELSE << <<"trsbox_linear_inv_pass_bound", pos>> >>)
  \o (IF Exhaustion(r) THEN <<>> ELSE << <<"trsbox_linear_inv_exhaustion", pos>> >>)
  \o (IF e.num = "" THEN <<>> ELSE << <<"trsbox_linear_internal_" \o e.num, pos>> >>)
TInit == /\ tid \in 1..NTr /\ l = 1 /\ s = Obs(Traces[tid].ev[1])
         /\ viol = (IF s = InitRec(s.n, s.cons) THEN <<>> ELSE << <<"trsbox_linear_initial_state", 1>> >>) \o StateClauses(s, Traces[tid].ev[1], 1)
TStep == /\ l < Len(Ev) /\ l' = l + 1 /\ tid' = tid /\ s' = Obs(Ev[l + 1])
         /\ viol' = viol \o (IF s' \in Succ(s) THEN <<>> ELSE << <<"trsbox_linear_step_not_in_spec", l + 1>> >>)
                         \o (IF Mono(s, s') THEN <<>> ELSE << <<"trsbox_linear_direction_released", l + 1>> >>)
                         \o StateClauses(s', Ev[l + 1], l + 1)
                         \o (IF l + 1 = Len(Ev) /\ s'.pc # "done" THEN << <<"trsbox_linear_no_terminal_state", l + 1>> >> ELSE <<>>)
TSpec == TInit /\ [][TStep]_tvars
Report == (l = Len(Ev)) => PrintT(<<"DONE", Traces[tid].id, viol>>)
=============================================================================================================
