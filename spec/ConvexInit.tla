---------------------------------------- MODULE ConvexInit ----------------------------------------
(* The initialisation of the interpolation set under convex constraints (controller.py:150-229, Controller.initialise_coordinate_directions,
   projections branch), as the state machine the code is: build n projected coordinate steps, then repair a rank-deficient set in three phases.

     build     D[k] = P(x0 + s*e_k) - x0,  s = min(1, rhobeg),  P = alternating projections onto the user's sets
     phase 1   (deterministic)  rank, diag = qr_rank(D) ONCE; for k = 0..n-1 while rank < n: if diag[k] < tol then try D[k] = P(x0 - s*e_k) - x0,
               revert if the rank did not go up; the loop's rank variable takes the new rank EITHER WAY
     phase 2   (numpy's global generator) up to 100*n rounds: a random selector picks, per round, whether coordinate k mod n is tried with its negative
               step; same keep/revert rule, same unconditional update of the rank variable (which therefore goes STALE after a revert that lowered it)
     phase 3   (numpy's global generator) random directions for the coordinates whose (phase-entry) diag is below the tolerance
     raise     RuntimeError when the rank is still deficient

   Abstraction: the starting point sits in a cell of an axis-aligned arrangement, so every projected coordinate step stays on its own axis:
     plus[k], minus[k] in {0, 1, 2}  =  length of P(x0 +/- s*e_k) - x0 in units of s/2  (0: collapsed - x0 on a face; 1: cut short; 2: full step).
   D is then diagonal, its rank is the number of non-zero rows and diag[k] = |D[k]| - exact in binary64 for dyadic data, which is what lets the harness
   (harness/c19.py, convex-init replay) demand that the real code evaluates EXACTLY the predicted points.  The generator's choices are nondeterministic
   here; TLC explores all of them.

   What is checked
     DetSufficient   if every coordinate has a usable step in one of its two directions, the random phases are never entered  (C19: such runs must not
                     depend on the generator's state - the replay runs them under two states and compares)
     DetUnique       ... and the final set is the one predicted by Predicted (first usable of plus, minus)
     DoneFullRank    a set that is handed to the evaluation loop has n non-zero rows
     Phase2Futile    (a fact about the code the model exposes) in this arrangement phase 2 can never raise the rank: it is entered only when some
                     coordinate has no usable step at all, and only phase 3 can repair that
   PREDICT records (one per initial state) carry the prediction to the replay. *)
EXTENDS Integers, Sequences, FiniteSets, TLC, Json

CONSTANTS MaxN,          \* dimensions 2..MaxN
          Rounds,        \* bound on phase-2 rounds explored (the code: 100*n)
          StaleRank      \* TRUE: the code as it is - the loop's rank variable takes the candidate's rank even when the candidate is reverted;
                         \* FALSE: the rank variable follows D (used to show that RandomOnlyWhereUnusable then holds)

Len3 == {0, 1, 2}
RandomRow == 99          \* a row produced by phase 3 (a random direction: off the lattice)

VARIABLES n, plus, minus, D, pc, k, rk, diag, everRand
vars == <<n, plus, minus, D, pc, k, rk, diag, everRand>>

Rank(d) == Cardinality({i \in DOMAIN d : d[i] # 0})
Abs(v) == IF v < 0 THEN -v ELSE v
DiagOf(d) == [i \in DOMAIN d |-> Abs(d[i])]

Init == /\ n \in 2..MaxN /\ plus \in [1..n -> Len3] /\ minus \in [1..n -> Len3]
        /\ D = plus /\ pc = "p1" /\ k = 1 /\ rk = Rank(plus) /\ diag = DiagOf(plus) /\ everRand = FALSE

\* try the negative step in row i: keep it only if the rank goes up; the loop's rank variable takes the new value either way
TryNeg(i) == LET cand == [D EXCEPT ![i] = -minus[i]]
                 r2 == Rank(cand)
             IN  /\ D' = IF r2 <= rk THEN D ELSE cand
                 /\ rk' = IF StaleRank \/ r2 > rk THEN r2 ELSE rk

Phase1 == /\ pc = "p1"
          /\ IF rk # n /\ k <= n
             THEN /\ (IF diag[k] = 0 THEN TryNeg(k) ELSE UNCHANGED <<D, rk>>)
                  /\ k' = k + 1 /\ UNCHANGED <<pc, diag, everRand>>
             ELSE \* leave the loop; phase 2 recomputes rank and diag from D
                  /\ pc' = "p2" /\ k' = 0 /\ rk' = Rank(D) /\ diag' = DiagOf(D) /\ UNCHANGED <<D, everRand>>

\* one round of phase 2: the selector bit for coordinate (k mod n) is the generator's choice
Phase2 == /\ pc = "p2"
          /\ IF rk # n /\ k < Rounds
             THEN /\ everRand' = TRUE
                  /\ \E bit \in BOOLEAN :
                        IF bit THEN TryNeg((k % n) + 1) ELSE UNCHANGED <<D, rk>>
                  /\ k' = k + 1 /\ UNCHANGED <<pc, diag>>
             ELSE /\ pc' = "p3" /\ k' = 1 /\ rk' = Rank(D) /\ diag' = DiagOf(D) /\ UNCHANGED <<D, everRand>>

\* phase 3: a random direction for every row whose diag (at phase entry) is zero; a generic direction always raises the rank
Phase3 == /\ pc = "p3"
          /\ IF rk # n /\ k <= n
             THEN /\ everRand' = TRUE
                  /\ (IF diag[k] = 0 THEN D' = [D EXCEPT ![k] = RandomRow] /\ rk' = rk + 1 ELSE UNCHANGED <<D, rk>>)
                  /\ k' = k + 1 /\ UNCHANGED <<pc, diag>>
             ELSE /\ pc' = (IF Rank(D) = n THEN "done" ELSE "raise") /\ UNCHANGED <<D, k, rk, diag, everRand>>

Next == \/ (Phase1 \/ Phase2 \/ Phase3) /\ UNCHANGED <<n, plus, minus>>
        \/ pc \in {"done", "raise"} /\ UNCHANGED vars
Spec == Init /\ [][Next]_vars /\ WF_vars(Next)

\* ------------------------------------------------------------------------------------------ prediction
Usable(i) == plus[i] # 0 \/ minus[i] # 0
Predicted == [i \in 1..n |-> IF plus[i] # 0 THEN plus[i] ELSE -minus[i]]
Class == IF \A i \in 1..n : plus[i] # 0 THEN "coordinate"
         ELSE IF \A i \in 1..n : Usable(i) THEN "negative_step" ELSE "random_needed"

TypeOK == /\ pc \in {"p1", "p2", "p3", "done", "raise"} /\ rk \in 0..n
          /\ \A i \in 1..n : D[i] \in {plus[i], -minus[i], RandomRow}
DetSufficient == (\A i \in 1..n : Usable(i)) => ~everRand
DetUnique == (pc = "done" /\ \A i \in 1..n : Usable(i)) => D = Predicted
DoneFullRank == pc = "done" => Rank(D) = n
Phase2Futile == pc = "p2" => Rank(D) = Rank([i \in 1..n |-> IF Usable(i) THEN 1 ELSE 0])
\* rows that were usable keep their predicted value even when the random phases run (only unusable rows are replaced).
\* FALSE for the code as it is (StaleRank): after a reverted candidate lowered the rank variable, a later candidate that merely restores nothing is
\* "an improvement" and is kept, so WHICH usable rows end up negated depends on the generator (part of the recorded finding KF-C19-convex-init-rank-repair)
RandomOnlyWhereUnusable == pc = "done" => \A i \in 1..n : (Usable(i) => D[i] = Predicted[i]) /\ (~Usable(i) => D[i] = RandomRow)
Terminates == <>(pc \in {"done", "raise"})

\* PREDICT: one record per initial state; FINAL: every set the machine can hand to the evaluation loop (all generator choices)
Emit == /\ ((pc = "p1" /\ k = 1 /\ D = plus /\ rk = Rank(plus)) =>
              PrintT("PREDICT" \o ToJson([n |-> n, plus |-> plus, minus |-> minus, class |-> Class, dirs |-> Predicted])))
        /\ ((pc = "done" /\ everRand) => PrintT("FINAL" \o ToJson([n |-> n, plus |-> plus, minus |-> minus, dirs |-> D])))
EmitInv == Emit
====================================================================================================
