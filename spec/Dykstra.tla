------------------------------------------ MODULE Dykstra ------------------------------------------
(* Sweep / step machine of dfols.util.dykstra (util.py:226-249).

       while n < max_iter and cI >= tol:        cI = 0
           for i in 0..p-1:  x = P[i](x - y[i]);  y[i] = x - (x_prev - y_prev[i]);  cI += |y_prev[i] - y[i]|^2
           n += 1
       return x

   The numerical content (what each projector returns, whether the accumulated squared change of a sweep is below tol) is
   the environment's choice; the machine fixes WHEN projectors are called, in WHICH order, and WHEN the routine may stop.
   The same stop rule is evaluated by DfolsTrace.tla (action Dyk) on every projection call observed in the real code, with
   the per-sweep "below tol" bits recomputed by the recorder from the observed projector outputs with the routine's own
   formulas (bit-exact shadow). *)
EXTENDS Integers, Sequences, FiniteSets, TLC

CONSTANTS P,          \* number of projectors (>= 1)
          MaxIter     \* sweep cap (>= 0)

VARIABLES sweep,      \* completed sweeps (the code's n)
          idx,        \* next projector to apply within the current sweep, 0..P-1; P = sweep boundary
          calls,      \* sequence of projector indices applied so far
          below,      \* sequence of booleans, one per completed sweep: cI < tol
          insweep,    \* a sweep is in progress
          done,       \* the routine has returned
          result      \* "input" (no projector was applied) or the index of the projector whose output is returned
vars == <<sweep, idx, calls, below, insweep, done, result>>

Init == sweep = 0 /\ idx = 0 /\ calls = <<>> /\ below = <<>> /\ insweep = FALSE /\ done = FALSE /\ result = "input"

\* loop test at a sweep boundary: continue iff n < max_iter and cI >= tol (cI = inf before the first sweep)
Continue == sweep < MaxIter /\ (IF sweep = 0 THEN TRUE ELSE ~below[sweep])

Begin == ~done /\ ~insweep /\ Continue /\ insweep' = TRUE /\ idx' = 0 /\ UNCHANGED <<sweep, calls, below, done, result>>
Apply == ~done /\ insweep /\ idx < P /\ calls' = Append(calls, idx) /\ idx' = idx + 1 /\ result' = idx
         /\ UNCHANGED <<sweep, below, insweep, done>>
EndSweep == ~done /\ insweep /\ idx = P /\ \E b \in BOOLEAN : below' = Append(below, b)
            /\ sweep' = sweep + 1 /\ insweep' = FALSE /\ UNCHANGED <<idx, calls, done, result>>
Return == ~done /\ ~insweep /\ ~Continue /\ done' = TRUE /\ UNCHANGED <<sweep, idx, calls, below, insweep, result>>
Next == Begin \/ Apply \/ EndSweep \/ Return \/ (done /\ UNCHANGED vars)
Spec == Init /\ [][Next]_vars /\ WF_vars(Next)

\* ------------------------------------------------------------------------------------ properties (C15, C09)
SweepCap == sweep <= MaxIter /\ Len(calls) <= P * MaxIter
CyclicOrder == \A j \in 1..Len(calls) : calls[j] = (j - 1) % P
StopsOnlyAtBoundary == done => (Len(calls) = P * sweep /\ ~insweep)
StopRule == done => /\ \A s \in 1..(sweep - 1) : ~below[s]                   \* never continued after a sweep below tol ...
                    /\ (sweep >= 1 => (below[sweep] \/ sweep = MaxIter))     \* ... and stopped for one of the two reasons
                    /\ (MaxIter >= 1 => sweep >= 1)
ResultIsLast == done => (IF sweep = 0 THEN result = "input" ELSE result = P - 1)
Terminates == <>done
====================================================================================================
