------------------------------------------ MODULE Kernels ------------------------------------------
(* Input classes and call/return contracts of the step kernels (trust_region.py):
     trsbox (C12), trsbox_geometry, ctrsbox_pgd, ctrsbox_sfista, ctrsbox_geometry, and the regularised step that
     Controller.trust_region_step hands to the main loop (C13).

   TLC cannot evaluate the inequalities of these contracts (binary64 arithmetic); what the specification contributes is
     - the exhaustive enumeration of input CLASS patterns (which coordinates sit on / within rounding of / away from which
       bound, the sign pattern of the gradient against the active set, the kind of Hessian, the kind of convex sets), each of
       which is concretised into several calls of the real kernel with scalings over the decades named in the property, and
     - the contract itself as clauses over classes the harness computes at the call's return, evaluated by the trace
       specification (DfolsTrace.tla, action Kernel) so that verdicts are total and name the failing clause.

   Calls of the solver's own (recorded inside solver runs) are judged by the same clauses when their data lie inside the scale domain
   1e-8 <= |g|_inf <= 1e8, 1e-8 <= delta <= 1e8, |H|_max * delta <= 1e8 * |g|_inf (ten decades wider than the property's own); outside it the
   event carries no clauses (the kernel's absolute DFBOLS thresholds decide there, which the statement does not cover).

   Contract clauses (each class is computed in harness/kernels.py next to its inequality and tolerance):
     trsbox          box_exact, norm_le_delta (1+1e-8), model_not_increased, beats_truncated_cauchy, gnew_is_g_plus_Hd
     trsbox_geometry box_1e-12, norm_le_delta, global_max_1e-6, not_worse_than_zero_step
     ctrsbox_*       norm_le_delta (1+1e-8)
     tr_step (reg.)  pred_reduction_nonneg, norm_le_delta *)
EXTENDS Integers, Sequences, FiniteSets, TLC, Json

CONSTANTS MaxN

Pos == {"atL", "nearL", "in", "atU", "nearU", "free"}   \* position of xopt_i in [sl_i, su_i]; nearX = within 1e-14 relative; free = no bound
Sgn == {"neg", "zero", "pos"}                           \* sign of g_i
HKind == {"zero", "psd_lowrank", "psd_full", "indefinite", "badscale"}
SetKind == {"ball", "half", "box"}

\* Coincidences (trsbox): measure-zero input classes that no random scaling produces, each a distinct path of the truncated conjugate-gradient loop
\*   bound_on_sphere  the first steepest-descent step meets a bound at a point within a few units of rounding of the trust-region sphere
\*                    (the remaining free variables continue from a point on the sphere, possibly heading back into the ball)
\*   tied_bounds      two or more variables reach their bounds at the same step length (equal gradient components, equal room): after the step a
\*                    free variable sits exactly on the bound it is pushed towards
\*   bound_at_delta   a bound lies EXACTLY delta away along the step (zero Hessian: the step ends on the sphere and on the bound at once; whether
\*                    steplength * direction rounds one unit outside the bound depends on the digits, so the class is concretised many times)
\*   bound_then_arc   (n >= 3) a bound is met strictly inside the ball during the conjugate-gradient phase, at least two variables stay free and reach
\*                    the sphere: the search along the boundary arc starts with a fixed variable whose step component is not zero
\*   late_bound_then_arc  as bound_then_arc, but the bound belongs to the variable that carries most of the gradient and is met LATER in the
\*                    conjugate-gradient phase (0.1 .. 0.95 delta away), with curvature dominated by one direction (a Jacobian with one large row): the fixed
\*                    variable's step component is large and strongly coupled to the free ones when the arc search starts.  Which rotation angle wins
\*                    depends on the digits, so the class is concretised many times
Coin == {"none", "bound_on_sphere", "tied_bounds", "bound_at_delta", "bound_then_arc", "late_bound_then_arc"}
\* Convex kernels: are the user's sets active inside the trust region?  "inside": every set contains the whole trust region around xopt's neighbourhood
\* (only the ball binds); "active": every set's boundary passes within the trust region and the descent direction points at it, so the step is decided by
\* the alternating projections onto the sets AND the ball (rel: two half-spaces in general position / nearly parallel - slow convergence of the projections)
\* "just_outside": every set inactive and the unconstrained minimiser of an isotropic model (the gradient of a linear one) a relative 1e-7 .. 1e-5
\* beyond the sphere - the ball projection that ends every sweep has to act on a point that is almost on the boundary
Act == {"inside", "active", "just_outside"}
Rel == {"generic", "near_parallel"}
VARIABLES kernel, n, pos, sgn, hk, sets, coin, act, rel
vars == <<kernel, n, pos, sgn, hk, sets, coin, act, rel>>
\* interior coordinates with a non-zero gradient component: those that can be driven into a bound by the first step
Movable(p, s) == {i \in DOMAIN p : p[i] = "in" /\ s[i] # "zero"}
CoinOK(c, p, s) == CASE c = "none" -> TRUE
                     [] c = "bound_on_sphere" -> Cardinality(Movable(p, s)) >= 1
                     [] c = "tied_bounds" -> Cardinality(Movable(p, s)) >= 2
                     [] c = "bound_at_delta" -> Cardinality(Movable(p, s)) >= 1
                     [] c = "bound_then_arc" -> Cardinality(DOMAIN p) >= 3 /\ Cardinality(Movable(p, s)) >= 1
                                                /\ Cardinality({i \in DOMAIN p : s[i] # "zero" /\ p[i] \in {"in", "free"}}) >= 3
                     [] c = "late_bound_then_arc" -> Cardinality(DOMAIN p) >= 3 /\ Cardinality(Movable(p, s)) >= 1
                                                /\ \A i \in DOMAIN p : s[i] # "zero" /\ p[i] \in {"in", "free"}

Init == \/ /\ kernel = "trsbox" /\ n \in 1..MaxN /\ pos \in [1..n -> Pos] /\ sgn \in [1..n -> Sgn] /\ hk \in HKind /\ sets = <<>>
           /\ coin \in Coin /\ CoinOK(coin, pos, sgn) /\ act = "inside" /\ rel = "generic"
           /\ (coin = "bound_at_delta" => hk = "zero") /\ (coin = "bound_then_arc" => hk \in {"indefinite", "psd_lowrank"}) /\ (coin = "late_bound_then_arc" => hk = "psd_lowrank")
        \/ /\ kernel = "trsbox_geometry" /\ n \in 1..MaxN /\ pos \in [1..n -> Pos] /\ sgn \in [1..n -> Sgn] /\ hk = "zero" /\ sets = <<>> /\ coin = "none" /\ act = "inside" /\ rel = "generic"
        \/ /\ kernel \in {"ctrsbox_pgd", "ctrsbox_geometry", "ctrsbox_sfista"} /\ n \in 2..3 /\ pos = [i \in 1..n |-> "in"] /\ sgn \in [1..n -> {"neg", "pos"}]
           /\ act \in Act /\ rel \in Rel
           /\ (act \in {"active", "just_outside"} => sgn = [i \in 1..n |-> "neg"])
           /\ hk \in {"zero", "psd_full", "psd_lowrank"}
           /\ (kernel = "ctrsbox_pgd" => hk # "zero")    \* the projected-gradient step length is 1/||H||: a zero Hessian is outside its domain (J = 0)
           /\ sets \in {<<a>> : a \in SetKind} \cup {<<a, b>> : a, b \in SetKind}
           /\ (rel = "near_parallel" => act = "active" /\ sets = <<"half", "half">>)
           /\ (act = "just_outside" => hk = "psd_full" /\ Len(sets) = 1)
           /\ coin = "none"
Next == UNCHANGED vars
Spec == Init /\ [][Next]_vars

\* a coordinate whose bound is active and whose gradient pushes outwards is fixed from the start (trsbox's xbdi)
FixedAtStart(i) == (pos[i] = "atL" /\ sgn[i] \in {"pos", "zero"}) \/ (pos[i] = "atU" /\ sgn[i] \in {"neg", "zero"})
NFree == Cardinality({i \in 1..n : ~FixedAtStart(i)})
Emit == PrintT("KERNEL" \o ToJson([kernel |-> kernel, n |-> n, pos |-> pos, sgn |-> sgn, hk |-> hk, sets |-> sets, nfree |-> NFree, coin |-> coin, act |-> act, rel |-> rel]))
EmitInv == Emit
TypeOK == NFree \in 0..n
====================================================================================================
