------------------------------------------ MODULE TrsboxTrace ------------------------------------------
(* Trace specification for monitored calls of the REAL dfols.trust_region.trsbox (harness/trsboxmon.py): every call is a
   sequence of snapshots, one at the first statement of each loop pass and one at the return.  A call is accepted iff
     - its first snapshot is an initial state of Trsbox.tla for its own dimension,
     - every later snapshot is in Succ(previous snapshot) - the SAME successor operators TLC explores exhaustively,
     - every invariant of Trsbox.tla holds on every observed state (the dimension is the call's, not the model-checked N),
     - the action property Mono holds on every observed step, the last snapshot is a terminal state,
     - no numerical class computed at the hook failed (box, ball, frozen, gnew, qred_monotone, qred_is_decrease).
   Verdicts are total: a failing clause is recorded with its position and the state resynchronises to the observed one. *)
EXTENDS Trsbox, Sequences, Json, IOUtils

Traces == JsonDeserialize(IOEnv.TRACE_FILE)
NTr == Len(Traces)
InnerCap(n) == 100 * n * n          \* the code's own cap: the trace specification does not restrict the numerically bounded inner loop

VARIABLES tid, l, viol
tvars == <<st, tid, l, viol>>

Ev == Traces[tid].ev
Obs(e) == [pc |-> e.pc, n |-> e.n, xb |-> e.xb, nact |-> e.nact, fix0 |-> e.fix0, iterc |-> e.iterc, itermax |-> e.itermax, bz |-> e.bz, gz |-> e.gz,
           passes |-> e.passes, outer |-> e.outer, inner |-> e.inner, rst |-> e.rst]

StateClauses(s, e, pos) ==
     (IF NactCount(s) THEN <<>> ELSE << <<"trsbox_inv_nact_count", pos>> >>)
  \o (IF IterBound(s) THEN <<>> ELSE << <<"trsbox_inv_iter_bound", pos>> >>)
  \o (IF ItercBound(s) THEN <<>> ELSE << <<"trsbox_inv_iterc_bound", pos>> >>)
  \o (IF CGPassBound(s) THEN <<>> ELSE << <<"trsbox_inv_cg_pass_bound", pos>> >>)
  \o (IF RestartBound(s) THEN <<>> ELSE << <<"trsbox_inv_restart_bound", pos>> >>)
  \o (IF OuterBound(s) THEN <<>> ELSE << <<"trsbox_inv_outer_bound", pos>> >>)
  \o (IF e.num \in {"", "dom"} THEN <<>> ELSE << <<"trsbox_internal_" \o e.num, pos>> >>)

TInit == /\ tid \in 1..NTr /\ l = 1
         /\ st = Obs(Traces[tid].ev[1])
         /\ viol = (IF st = InitRec(st.n, st.xb) THEN <<>> ELSE << <<"trsbox_initial_state", 1>> >>) \o StateClauses(st, Traces[tid].ev[1], 1)

TStep == /\ l < Len(Ev) /\ l' = l + 1 /\ tid' = tid
         /\ st' = Obs(Ev[l + 1])
         /\ viol' = viol
              \o (IF st' \in Succ(st, InnerCap(st.n)) THEN <<>> ELSE << <<"trsbox_step_not_in_spec", l + 1>> >>)
              \o (IF Mono(st, st') THEN <<>> ELSE << <<"trsbox_fixed_variable_released", l + 1>> >>)
              \o StateClauses(st', Ev[l + 1], l + 1)
              \o (IF l + 1 = Len(Ev) /\ st'.pc # "done" THEN << <<"trsbox_no_terminal_state", l + 1>> >> ELSE <<>>)

TSpec == TInit /\ [][TStep]_tvars

Report == (l = Len(Ev)) => PrintT(<<"DONE", Traces[tid].id, viol>>)
\* which abstract transitions the real calls exercised (binding coverage; compared with the set TLC reaches for small n)
Cover == (l > 1) => PrintT(<<"KIND", Kind(Obs(Ev[l - 1]), st)>>)
=============================================================================================================
