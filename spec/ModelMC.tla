----------------------------------------- MODULE ModelMC -----------------------------------------
(* Every sequence of public operations on dfols.model.Model (DfolsModel.tla operators), up to a depth bound:
   point replacement, added samples, added points, swaps, base shifts, saves, re-fits, factorisations and final-result
   queries, over values with ties, NaN and +Inf.

   Used three ways (properties C17 and the flag half of C16):
     - TLC checks the invariants below on every reachable state (exhaustive for the bounded constants);
     - the history variable `hist` carries, for every step, the operation, its arguments and the abstract post-state;
       behaviours are printed (PATH records) and replayed step by step on the REAL Model class by harness/replay_model.py
       with the full projected state compared after every call (spec -> code);
     - the same operators predict the post-state of every Model call observed in real runs (DfolsTrace.tla, code -> spec).

   Ghost variables hold the IDEAL bookkeeping the property describes, maintained independently of the operators:
     gs[k]  = [en, ns] that slot k should carry (evaluation numbers and sample counts travel with their points),
     pv, fv = version of the point set INCLUDING the choice of its best point (the interpolation matrix is built around it) /
              version the cached factorisation was computed for,
     dirty  = the incumbent slot itself was overwritten by a worse (or NaN) value since kopt was last chosen. *)
EXTENDS Integers, Sequences, FiniteSets, TLC, Json, DfolsModel

CONSTANTS Cap,        \* capacity (num_pts) of the model at creation
          MaxAdd,     \* how many points add_new_point may append
          FinVals,    \* finite objective values (small naturals)
          WithNaN, WithInf,
          MaxNs,      \* samples per slot are bounded (exact binary arithmetic in the replay needs <= 2)
          Depth       \* number of operations

InfV == 9
Vals == FinVals \cup (IF WithNaN THEN {NaN} ELSE {}) \cup (IF WithInf THEN {InfV} ELSE {})
IsFin(v) == v # NaN /\ v # InfV

VARIABLES m, gs, pv, fv, dirty, nx, hist
vars == <<m, gs, pv, fv, dirty, nx, hist>>

Init == \E v0 \in Vals :
        /\ m = InitModel(Cap, 1, 1, v0) /\ gs = <<[en |-> 1, ns |-> 1]>> /\ pv = 0 /\ fv = -1 /\ dirty = FALSE /\ nx = 1
        /\ hist = <<[op |-> "init", v |-> v0, post |-> InitModel(Cap, 1, 1, v0)]>>

Log(rec, post) == hist' = Append(hist, rec @@ [post |-> post])
\* the mean of a sample set containing NaN is NaN; containing Inf it is Inf or NaN
MeanOK(old, new) == (IsNaN(old) => IsNaN(new)) /\ (old = InfV => new \in {InfV, NaN})

ChangePoint(k, v) ==
  /\ ChangePointEnabled(m, k)
  /\ LET post == ChangePointM(m, k, v, nx + 1) IN
     /\ m' = post /\ nx' = nx + 1 /\ pv' = pv + 1
     /\ gs' = IF k = Len(gs) + 1 THEN Append(gs, [en |-> nx + 1, ns |-> 1]) ELSE [gs EXCEPT ![k] = [en |-> nx + 1, ns |-> 1]]
     /\ dirty' = (dirty \/ (k = m.kopt /\ ~Leq(v, ObjOpt(m))))    \* the incumbent slot itself overwritten by a worse / NaN value
     /\ Log([op |-> "cp", k |-> k, v |-> v, en |-> nx + 1], post)
  /\ UNCHANGED fv

AddSample(k, v) ==
  /\ k \in 1..Len(m.slots) /\ m.slots[k].ns < MaxNs /\ MeanOK(m.slots[k].obj, v)
  /\ LET post == AddSampleM(m, k, v) IN
     /\ m' = post /\ gs' = [gs EXCEPT ![k].ns = @ + 1]
     /\ dirty' = IF \E j \in 1..Len(post.slots) : ~IsNaN(post.slots[j].obj) THEN FALSE ELSE dirty   \* argmin re-selects the incumbent
     /\ Log([op |-> "as", k |-> k, v |-> v], post)
     /\ pv' = IF post.kopt # m.kopt THEN pv + 1 ELSE pv      \* the interpolation matrix is built around the best point
  /\ UNCHANGED <<fv, nx>>

AddPoint(v) ==
  /\ Len(m.slots) = m.numpts /\ m.numpts < Cap + MaxAdd
  /\ LET post == AddPointM(m, v, nx + 1) IN
     /\ m' = post /\ nx' = nx + 1 /\ pv' = pv + 1 /\ gs' = Append(gs, [en |-> nx + 1, ns |-> 1])
     /\ Log([op |-> "ap", v |-> v, en |-> nx + 1], post)
  /\ UNCHANGED <<fv, dirty>>

Swap(k1, k2) ==
  /\ k1 \in 1..Len(m.slots) /\ k2 \in 1..Len(m.slots) /\ k1 < k2
  /\ LET post == SwapM(m, k1, k2) IN
     /\ m' = post /\ pv' = pv + 1
     /\ gs' = [gs EXCEPT ![k1] = gs[k2], ![k2] = gs[k1]]
     /\ Log([op |-> "sw", k1 |-> k1, k2 |-> k2], post)
  /\ UNCHANGED <<fv, nx, dirty>>

ShiftBase ==
  /\ LET post == ShiftBaseM(m) IN m' = post /\ Log([op |-> "sh"], post)
  /\ pv' = pv + 1 /\ UNCHANGED <<gs, fv, nx, dirty>>

\* save_point is called with a freshly evaluated point (or with the incumbent): value v, evaluation number nx+1
SavePoint(v) ==
  /\ LET post == SavePointM(m, v, 1, nx + 1) IN m' = post /\ Log([op |-> "sp", v |-> v, en |-> nx + 1, saved |-> SaveDecision(m, v)], post)
  /\ nx' = nx + 1 /\ UNCHANGED <<gs, pv, fv, dirty>>
SaveIncumbent ==
  /\ LET s == m.slots[m.kopt]
         post == SavePointM(m, s.obj, s.ns, s.en)
     IN m' = post /\ Log([op |-> "si", saved |-> SaveDecision(m, s.obj)], post)
  /\ UNCHANGED <<gs, pv, fv, dirty, nx>>

\* interpolate_mini_models_svd (factorises first): ok is forced FALSE on non-finite data
Interp(ok) ==
  /\ Len(m.slots) >= 2           \* the solver never fits a one-point set (the interpolation matrix is then undefined)
  /\ (ok => \A k \in 1..Len(m.slots) : IsFin(m.slots[k].obj))
  /\ LET post == InterpM(m, ok) IN m' = post /\ Log([op |-> "ip", ok |-> ok], post)
  /\ fv' = pv /\ UNCHANGED <<gs, pv, nx, dirty>>
Factorise ==
  /\ Len(m.slots) >= 2
  /\ LET post == FactoriseM(m) IN m' = post /\ Log([op |-> "fa"], post)
  /\ fv' = pv /\ UNCHANGED <<gs, pv, nx, dirty>>
FinalQuery ==
  /\ Log([op |-> "fq", res |-> FinalM(m)], m) /\ UNCHANGED <<m, gs, pv, fv, nx, dirty>>

Next == /\ Len(hist) <= Depth
        /\ \/ \E k \in 1..(Cap + MaxAdd) : \E v \in Vals : ChangePoint(k, v)
           \/ \E k \in 1..(Cap + MaxAdd) : \E v \in Vals : AddSample(k, v)
           \/ \E v \in Vals : AddPoint(v)
           \/ \E k1, k2 \in 1..(Cap + MaxAdd) : Swap(k1, k2)
           \/ ShiftBase
           \/ \E v \in Vals : SavePoint(v)
           \/ SaveIncumbent
           \/ Interp(TRUE) \/ Interp(FALSE) \/ Factorise \/ FinalQuery
Spec == Init /\ [][Next]_vars

View == <<m, gs, pv - fv, dirty>>     \* hide the history, the point counter and the absolute versions

\* ------------------------------------------------------------------------------ invariants (C17, C16 flags)
\* evaluation numbers and sample counts travel with their points
C17_Travels == Len(gs) = Len(m.slots) /\ \A k \in 1..Len(m.slots) : m.slots[k].en = gs[k].en /\ m.slots[k].ns = gs[k].ns
\* the incumbent designates the smallest stored objective unless the incumbent itself was overwritten by a worse point
C17_KoptMin == dirty \/ \A k \in 1..Len(m.slots) : IsNaN(m.slots[k].obj) \/ Leq(ObjOpt(m), m.slots[k].obj)
C17_KoptRange == m.kopt \in 1..Len(m.slots)
\* the final-result query returns the better of the saved point and the incumbent, preferring any finite value over NaN
C17_Final == LET f == FinalM(m) IN
             /\ (~IsNaN(ObjOpt(m)) => Leq(f.obj, ObjOpt(m)))
             /\ ((m.save.has /\ ~IsNaN(m.save.obj)) => Leq(f.obj, m.save.obj))
             /\ (IsNaN(f.obj) => (IsNaN(ObjOpt(m)) /\ (~m.save.has \/ IsNaN(m.save.obj))))
             /\ (f.en = m.slots[m.kopt].en \/ (m.save.has /\ f.en = m.save.en))
\* a NaN never displaces a finite saved point
C17_SaveMonotone == [][(m.save.has /\ ~IsNaN(m.save.obj)) => (m'.save.has /\ Leq(m'.save.obj, m.save.obj))]_m
\* C16 (flag logic): the cached factorisation is only declared current for the point set it was computed from
C16_FactorCurrent == m.fc => fv = pv
C16_JacSnapshot == m.jacen # <<>> => Len(m.jacen) = m.numpts \/ Len(m.jacen) <= m.numpts
TypeOK == nx \in 1..(Depth + 2) /\ Len(m.slots) <= Cap + MaxAdd

\* behaviours for the replay: one PATH record per state at the depth bound (simulation mode), and every transition (EDGE)
PrintPaths == (Len(hist) = Depth + 1) => PrintT("PATH" \o ToJson(hist))
==================================================================================================
