----------------------------------------- MODULE InitSet -----------------------------------------
(* The default coordinate initialisation of the interpolation set (controller.py:254-352, sequential branch) as exact
   integer arithmetic on a lattice, and the call contracts of the two random-direction generators (util.py:103-209)
   over active-set patterns.

   Lattice: one unit u = rhobeg/1000; rhobeg = Delta = 1000 u.  All quantities are relative to the (projected) starting
   point x0, which is the first evaluation point.  Per coordinate the configuration is a placement of x0 in its box:
       sl <= 0 <= su   (sl = lower - x0, su = upper - x0),  su - sl >= 2*Delta  (solve's own precondition)
   Placements enumerate every case of the code's case analysis: on a bound, 1 and 9 units inside (within the 1 %
   threshold 0.01*Delta = 10 u that switches the direction of the steps), 11 units (just outside it), 500 units (closer than
   one step), and interior; box widths at the minimum gap, slightly above, and one-sided (Big).

   TLC enumerates every configuration (n <= MaxN, npt in n+1..2n+1), computes the steps exactly as the code does, checks the
   invariants of property C14 on them, and prints the configuration together with the predicted evaluation points; each is
   replayed on the real code with dyadic data (u = 2^-10 * 1000/1000 ... see harness/c14.py), where binary64 arithmetic is
   exact, and the points the real code evaluates must equal the prediction EXACTLY. *)
EXTENDS Integers, Sequences, FiniteSets, TLC, Json

CONSTANTS MaxN
Delta == 1000
Thr == 10                 \* 0.01 * Delta
Big == 100000000          \* stands for the 1e20 of an absent bound
MinI(a, b) == IF a <= b THEN a ELSE b
MaxI(a, b) == IF a >= b THEN a ELSE b
Clip(v, lo, hi) == MinI(MaxI(v, lo), hi)
Abs(v) == IF v < 0 THEN -v ELSE v

\* placement of x0 in one coordinate: <<sl, su>>
Widths == {2000, 2300}
Offsets == {0, 1, 9, 11, 500}
Placements ==
    {<<-1500, 1700>>, <<-Big, Big>>, <<-1500, Big>>, <<-Big, 1700>>}                       \* interior, unbounded, one-sided far
    \cup {<<-o, w - o>> : o \in Offsets, w \in Widths}                                      \* near / on the lower bound
    \cup {<<o - w, o>> : o \in Offsets, w \in Widths}                                       \* near / on the upper bound
    \cup {<<-o, Big>> : o \in Offsets} \cup {<<-Big, o>> : o \in Offsets}                   \* one-sided

VARIABLES n, npt, box
vars == <<n, npt, box>>

Init == /\ n \in 1..MaxN /\ npt \in (n + 1)..(2 * n + 1) /\ box \in [1..n -> Placements]
Next == UNCHANGED vars
Spec == Init /\ [][Next]_vars

Sl(i) == box[i][1]
Su(i) == box[i][2]
AtLower(i) == Sl(i) > -Thr
AtUpper(i) == Su(i) < Thr

\* step in its coordinate before clipping (controller.py:294-310), k = 1..npt-1
Dir(k) == IF k <= n THEN k ELSE k - n
FirstStep(i) == IF AtUpper(i) THEN -Delta ELSE Delta
SecondStep(i) == IF AtUpper(i) THEN MaxI(-2 * Delta, Sl(i))
                 ELSE IF AtLower(i) THEN MinI(2 * Delta, Su(i))
                 ELSE -Delta
RawStep(k) == IF k <= n THEN FirstStep(Dir(k)) ELSE SecondStep(Dir(k))
\* what is evaluated: x0 + clip(step, sl, su)   (Model.as_absolute_coordinates)
Step(k) == Clip(RawStep(k), Sl(Dir(k)), Su(Dir(k)))
Point(k) == [i \in 1..n |-> IF i = Dir(k) THEN Step(k) ELSE 0]
Points == [k \in 1..(npt - 1) |-> Point(k)]

\* ------------------------------------------------------------------------------ property C14 on the lattice
InBox == \A k \in 1..(npt - 1) : Sl(Dir(k)) <= Step(k) /\ Step(k) <= Su(Dir(k))
Distances == \A k \in 1..(npt - 1) : Abs(Step(k)) >= Thr /\ Abs(Step(k)) <= 2 * Delta
AxisAligned == \A k \in 1..MinI(n, npt - 1) : Step(k) # 0
\* second steps differ from the first step in the same coordinate and are non-zero => x0, first and second points are
\* affinely independent within the coordinate-structured set
SecondDistinct == \A k \in (n + 1)..(npt - 1) : Step(k) # 0 /\ Step(k) # Step(k - n)
Precondition == \A i \in 1..n : Sl(i) <= 0 /\ 0 <= Su(i) /\ Su(i) - Sl(i) >= 2 * Delta

C14 == Precondition => (InBox /\ Distances /\ AxisAligned /\ SecondDistinct)

Emit == PrintT("INIT" \o ToJson([n |-> n, npt |-> npt, box |-> box, points |-> Points]))
EmitInv == Emit
==================================================================================================
