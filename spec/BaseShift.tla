------------------------------------------ MODULE BaseShift ------------------------------------------
(* Property C01 as a DESIGN question, in a small binary floating-point format (P-bit mantissa, exponents 0..E, round to nearest,
   ties to even; numbers are held as integers in units of the smallest spacing).

   dfols keeps the bounds relative to a moving base point and forms every evaluation point as
        x = fl( xbase + clip(step, sl, su) ),    sl = fl(xl - xbase),  su = fl(xu - xbase)        (model.py:71-72, 139-158)
   and, when the base point is shifted by s (model.py:247-253),
        xbase <- fl(xbase + s),  sl <- fl(sl - s),  su <- fl(su - s).
   As found (ClipLast = FALSE) nothing follows: fl(xbase + fl(xl - xbase)) need not equal xl, so x can land one spacing outside [xl, xu]
   - TLC exhibits it (that is defect F-01; in binary64 it showed up in 15 of 300 random bounded runs).
   Repaired (ClipLast = TRUE, the fix: commit 9928832 in /repo) the LAST operation before the user's function is a clip against the
   user's own bounds, after which x in [xl, xu] holds whatever the rounding did before - TLC confirms it for every operand of the format.

   This module argues where the last clip has to sit; it is evidence in a small format, not a proof about binary64.  The binding to the
   code is the trace clause `bounds_exact` of DfolsTrace.tla, evaluated on every evaluation point of every recorded run. *)
EXTENDS Integers, FiniteSets, TLC

CONSTANTS P,          \* mantissa bits
          E,          \* largest exponent
          ClipLast,   \* TRUE: final clip in user coordinates (repaired design);  FALSE: as found
          Shifts      \* number of base shifts before the evaluation (0 or 1)

Pow2(k) == IF k = 0 THEN 1 ELSE IF k = 1 THEN 2 ELSE IF k = 2 THEN 4 ELSE IF k = 3 THEN 8 ELSE IF k = 4 THEN 16 ELSE IF k = 5 THEN 32 ELSE IF k = 6 THEN 64 ELSE 128
PosRep == {m * Pow2(e) : m \in 0..(Pow2(P) - 1), e \in 0..E}
Rep == PosRep \cup {-r : r \in PosRep}
MaxRep == (Pow2(P) - 1) * Pow2(E)
Abs(v) == IF v < 0 THEN -v ELSE v
\* spacing of the format at magnitude |x|, and round-to-nearest-even to that spacing (pure arithmetic; saturating at the largest number)
Quantum(x) == IF Abs(x) < Pow2(P) THEN 1 ELSE IF Abs(x) < Pow2(P + 1) THEN 2 ELSE IF Abs(x) < Pow2(P + 2) THEN 4 ELSE IF Abs(x) < Pow2(P + 3) THEN 8 ELSE 16
RoundHE(x, q) == LET d == x \div q
                     rem == x - d * q
                 IN  IF 2 * rem < q THEN d * q ELSE IF 2 * rem > q THEN (d + 1) * q ELSE (IF d % 2 = 0 THEN d * q ELSE (d + 1) * q)
FL(x) == IF x > MaxRep THEN MaxRep ELSE IF x < -MaxRep THEN -MaxRep ELSE RoundHE(x, Quantum(x))
Min2(a, b) == IF a <= b THEN a ELSE b
Max2(a, b) == IF a >= b THEN a ELSE b
Clip(v, lo, hi) == Min2(Max2(v, lo), hi)

VARIABLES xl, xu, xbase, step, shift, x
vars == <<xl, xu, xbase, step, shift, x>>

Small == {r \in Rep : Abs(r) <= Pow2(P)}      \* base shifts are of moderate size
Eval(b, lo, hi, s) ==
  LET sl0 == FL(lo - b)
      su0 == FL(hi - b)
      b1  == IF Shifts = 1 THEN FL(b + shift) ELSE b
      sl1 == IF Shifts = 1 THEN FL(sl0 - shift) ELSE sl0
      su1 == IF Shifts = 1 THEN FL(su0 - shift) ELSE su0
      raw == FL(b1 + Clip(s, sl1, su1))
  IN IF ClipLast THEN Clip(raw, lo, hi) ELSE raw

Init == /\ xl \in Rep /\ xu \in Rep /\ xl < xu
        /\ xbase \in Rep /\ xl <= xbase /\ xbase <= xu           \* the base point is the (projected) starting point
        /\ step \in Rep /\ shift \in (IF Shifts = 1 THEN Small ELSE {0})
        /\ x = Eval(xbase, xl, xu, step)
Next == UNCHANGED vars
Spec == Init /\ [][Next]_vars

C01_InBounds == xl <= x /\ x <= xu
======================================================================================================
