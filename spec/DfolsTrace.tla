--------------------------------------- MODULE DfolsTrace ---------------------------------------
(* Trace specification for whole-solver runs of dfols.solve (DESIGN.md 2.3, 4.1, Appendix A/B/C).

   Input: a JSON file (environment variable TRACE_FILE) with many recorded executions of the REAL code, one event per
   specification action (harness/recorder.py).  For every event the specification
     - PREDICTS the abstract post-state from the pre-state and the event's inputs, using the operators of
       DfolsModel.tla (the same ones Dfols.tla / ModelMC.tla are model-checked with) and the control rules of
       Appendix A (counters, batches, restart admission, merge over hard restarts, final selection);
     - COMPARES the prediction with the post-state projection the recorder logged, component by component;
     - EVALUATES the property clauses (Appendix B) on the observed state.
   Verdicts are total: the first false clause owned by the property under check (constant Prop) is recorded in viol
   together with its position, the next state is always the OBSERVED one (resynchronisation), and the trace is consumed
   to its end.  A trace is accepted iff viol = <<>> at the end; one DONE record per trace is printed.

   Floats are dense ranks per trace (order-preserving), NaN = -999999, so every comparison here is the float comparison. *)
EXTENDS Integers, Sequences, FiniteSets, TLC, Json, IOUtils, DfolsModel

CONSTANT Prop        \* "C01" .. "C20", or "ALL"

Traces == JsonDeserialize(IOEnv.TRACE_FILE)
NTr == Len(Traces)

VARIABLES tid, l, viol,
          nf, nx,            \* evaluation / point counters as implied by the calls observed so far
          mdl,               \* abstract model record (DfolsModel), [slots |-> <<>>] before ModelInit
          nruns, restarts,   \* runs completed+admitted so far / restarts performed
          best, bestjac, besthasjac, hardLSR, lastRun,   \* merge over hard restarts (solver.py:1143-1153), last get_final_results
          rho, delta, rhobegr, \* live radii (ranks)
          lastexit,          \* exit information of the last finished run
          batch,             \* evaluate_objective in progress: [open, req, done, nf0, nx0]
          lastreq,           \* what the nsamples callback last asked for (floored at 1)
          x0st,              \* x0 sampling in progress: [open, req, done]
          curxid, ptxid,     \* xid of the last call / of the current point number
          bestf, bestBeforeFault, faulted, raisedSeen,   \* C04 / C08 ghosts
          dykout,            \* C09: set of <<xid, stoppedByRule>> over model/solver-site projection calls
          runrho,            \* C18: smallest rho seen in the current run (rank) or -2 when none yet
          softopen           \* SoftBegin record of the soft restart in progress
vars == <<tid, l, viol, nf, nx, mdl, nruns, restarts, best, bestjac, besthasjac, hardLSR, lastRun, rho, delta, rhobegr, lastexit,
          batch, lastreq, x0st, curxid, ptxid, bestf, bestBeforeFault, faulted, raisedSeen, dykout, runrho, softopen>>

Ev == Traces[tid].ev
Cfg == Traces[tid].cfg

NoBest == [has |-> FALSE, obj |-> 0, en |-> -1, ns |-> -1]
NoModel == [slots |-> <<>>, kopt |-> 1, save |-> NoSave, jacen |-> <<>>, fc |-> FALSE, numpts |-> 0]
\* evaluate_objective in progress (open .. nx0), and the batch that has just ended and still has to be CONSUMED (pend ..): a batch that ran at least one
\* sample must enter the model (change_point / add_new_point with its own point number, then one add_new_sample per further sample) or, on an
\* exit, be offered to save_point - the mechanism behind C04 ("never lost") and C02/C17 ("sample count exact")
NoBatch == [open |-> FALSE, req |-> 0, done |-> 0, nf0 |-> 0, nx0 |-> 0, nan |-> FALSE, pend |-> FALSE, pnx |-> 0, prun |-> 0, pnan |-> FALSE, needas |-> 0]
NoX0 == [open |-> FALSE, req |-> 0, done |-> 0]
NoneF == -2     \* "no finite value seen yet"

Init == /\ tid \in 1..NTr /\ l = 1 /\ viol = <<>> /\ nf = 0 /\ nx = 0 /\ mdl = NoModel /\ nruns = 0 /\ restarts = 0
        /\ best = NoBest /\ bestjac = <<>> /\ besthasjac = FALSE /\ hardLSR = 0 /\ lastRun = NoBest @@ [jacen |-> <<>>]
        /\ rho = 0 /\ delta = 0 /\ rhobegr = 0 /\ lastexit = [flag |-> -99, msgc |-> ""]
        /\ batch = NoBatch /\ lastreq = 1 /\ x0st = NoX0 /\ curxid = 0 /\ ptxid = 0
        /\ bestf = NoneF /\ bestBeforeFault = NoneF /\ faulted = FALSE /\ raisedSeen = FALSE /\ dykout = {} /\ runrho = NoneF
        /\ softopen = [nruns |-> 0]

\* ---------------------------------------------------------------------------------------- helpers
Owned(ps) == Prop = "ALL" \/ Prop \in ps
\* cl: sequence of <<name, owners, holds>>; record the first clause that is owned by Prop and false
\* C19: a trace with Cfg.ref > 0 must equal its reference trace event for event (checked at every event, before the event's own clauses)
RefClause == IF Cfg.ref = 0 THEN TRUE
             ELSE /\ l <= Len(Traces[Cfg.ref].ev) /\ Ev[l].dg = Traces[Cfg.ref].ev[l].dg   \* dg: digest of the raw (unranked) event
                  /\ (l = Len(Ev) => Len(Traces[Cfg.ref].ev) = Len(Ev))
Chk(cl0) == LET cl == << <<"identical_to_reference_run", {"C19"}, RefClause>> >> \o cl0
                f == {i \in 1..Len(cl) : Owned(cl[i][2]) /\ ~cl[i][3]}
            IN  viol' = IF f = {} THEN viol ELSE Append(viol, <<cl[CHOOSE i \in f : \A j \in f : i <= j][1], l>>)

\* observed model projection -> abstract model record
ObsSlots(p) == [k \in 1..p.npt |-> Slot(p.en[k], p.ns[k], p.obj[k])]
ObsSave(p)  == IF p.hassave THEN [has |-> TRUE, obj |-> p.objsave, en |-> p.ensave, ns |-> p.nssave, jacen |-> p.jacsaveen] ELSE NoSave
Obs(p) == [slots |-> ObsSlots(p), kopt |-> p.kopt + 1, save |-> ObsSave(p), jacen |-> p.jacen, fc |-> p.fc, numpts |-> p.numpts]
\* the per-slot identity classes computed by the recorder (C03 / C17): the slot designates the evaluation it names
\* point identity: "t" = equal to rounding of the base-point arithmetic; "r" = equal up to a re-projection at the level of the Dykstra tolerance (the read
\* accessor re-applies the alternating projections to the stored point; only possible when projections are given) - reported under its own clause
PointsOK(p) == /\ \A k \in 1..p.npt : p.xok[k] \in {"t", "r"}
               /\ (p.hassave => p.xoksave \in {"t", "r"})
PointsExact(p) == /\ \A k \in 1..p.npt : p.xok[k] # "r"
                  /\ (p.hassave => p.xoksave # "r")
ResidsOK(p) == /\ \A k \in 1..p.npt : p.rok[k]
               /\ (p.hassave => p.roksave)
ObjsOK(p) == /\ \A k \in 1..p.npt : p.ook[k]
             /\ (p.hassave => p.ooksave)
EvalNumsOK(p) == /\ \A k \in 1..p.npt : p.en[k] \in 1..nx
                 /\ (p.hassave => p.ensave \in 1..nx)
IdentClauses(p, pre) ==
  << <<pre \o "point_is_the_evaluated_point", {"C03", "C17", "C11"}, PointsOK(p)>>,
     <<pre \o "point_not_reprojected", {"C03"}, PointsExact(p)>>,
     <<pre \o "residual_is_mean_of_samples", {"C03", "C17"}, ResidsOK(p)>>,
     <<pre \o "objective_is_sumsq_plus_h", {"C03", "C17"}, ObjsOK(p)>>,
     <<pre \o "evalnum_in_range", {"C03", "C17", "C11"}, EvalNumsOK(p)>> >>
\* same abstract state, ignoring the factorisation flag (which read-only queries may set)
SameButFc(a, b) == a.slots = b.slots /\ a.kopt = b.kopt /\ a.save = b.save /\ a.jacen = b.jacen /\ a.numpts = b.numpts

MinF(a, b) == IF a = NoneF THEN b ELSE IF b = NoneF THEN a ELSE IF a <= b THEN a ELSE b
Restartable(flag, msgc) == flag \in {-2, 5, -3, 2, 4, -4} \/ (flag = 0 /\ msgc # "small")

UNCH(vs) == UNCHANGED vs
Rest1 == <<nruns, restarts, best, bestjac, besthasjac, hardLSR, lastRun, rho, delta, rhobegr, lastexit, lastreq, dykout, runrho, softopen>>

\* ------------------------------------------------------------------------------------------ events
Call(e) ==
  /\ Chk(<< <<"call_index", {"C02"}, e.i = nf + 1>>,
            <<"budget", {"C02", "C08"}, nf + 1 <= Cfg.maxfun>>,
            <<"call_site", {"C02"}, batch.open \/ x0st.open>>,
            <<"no_call_after_raise", {"C08"}, ~raisedSeen>>,
            <<"bounds_exact", {"C01", "C08", "C09"}, \A j \in 1..Len(e.pos) : e.pos[j] \in 1..3>>,
            <<"x_finite", {"C08"}, e.xfin>>,
            <<"only_after_projection", {"C09"}, Cfg.hasproj => (\E b \in BOOLEAN : <<e.xid, b>> \in dykout)>>,
            <<"feasible_when_converged", {"C09"}, (Cfg.hasproj /\ <<e.xid, TRUE>> \in dykout /\ <<e.xid, FALSE>> \notin dykout) => e.feas = "ok">> >>)
  /\ nf' = e.i /\ curxid' = e.xid
  /\ bestf' = IF e.cls = "fin" /\ ~e.raised /\ e.f # NaN THEN MinF(bestf, e.f) ELSE bestf
  /\ faulted' = (faulted \/ e.cls # "fin")
  /\ bestBeforeFault' = IF ~faulted /\ e.cls = "fin" THEN MinF(bestBeforeFault, e.f) ELSE bestBeforeFault
  /\ raisedSeen' = (raisedSeen \/ e.raised)
  /\ batch' = IF batch.open /\ e.cls = "nan" THEN [batch EXCEPT !.nan = TRUE] ELSE batch
  /\ UNCH(<<nx, mdl, x0st, ptxid>>) /\ UNCH(Rest1)

LogEval(e) ==
  /\ Chk(<< <<"log_evalnum", {"C02"}, e.i = nf>>,
            <<"log_ptnum", {"C02"}, e.j \in {nx, nx + 1}>>,
            <<"new_point_only_at_batch_start", {"C02"}, e.j = nx + 1 => ((batch.open /\ batch.done = 0) \/ (x0st.open /\ x0st.done = 0))>>,
            <<"one_point_per_batch", {"C02"}, e.j = nx => ((batch.open /\ batch.done > 0) \/ (x0st.open /\ x0st.done > 0))>>,
            <<"same_point_same_x", {"C02"}, e.j = nx => curxid = ptxid>> >>)
  /\ nx' = e.j /\ ptxid' = curxid
  /\ batch' = IF batch.open THEN [batch EXCEPT !.done = @ + 1] ELSE batch
  /\ x0st' = IF ~batch.open /\ x0st.open THEN [x0st EXCEPT !.done = @ + 1] ELSE x0st
  /\ UNCH(<<nf, mdl, curxid, bestf, bestBeforeFault, faulted, raisedSeen>>) /\ UNCH(Rest1)

NSamples(e) ==
  /\ Chk(<< >>) /\ lastreq' = IF e.ret >= 1 THEN e.ret ELSE 1
  /\ UNCH(<<nf, nx, mdl, nruns, restarts, best, bestjac, besthasjac, hardLSR, lastRun, rho, delta, rhobegr, lastexit, batch, x0st, curxid, ptxid,
            bestf, bestBeforeFault, faulted, raisedSeen, dykout, runrho, softopen>>)

RunBegin(e) ==
  /\ Chk(<< <<"run_nf", {"C02"}, e.nf = nf>>, <<"run_nx", {"C02"}, e.nx = nx>>, <<"run_nruns", {"C02", "C10"}, e.nruns = nruns>>,
            <<"inherit_only_after_a_run", {"C03"}, e.inherit => best.has>>,
            <<"run_rhoend_documented", {"C10", "C18"}, l > 1 => TRUE>> >>)
  /\ rho' = e.rhobeg /\ delta' = e.rhobeg /\ rhobegr' = e.rhobeg /\ runrho' = NoneF
  /\ x0st' = IF e.inherit THEN NoX0 ELSE [open |-> TRUE, req |-> 0, done |-> 0]
  /\ restarts' = IF best.has THEN restarts + 1 ELSE restarts
  /\ mdl' = NoModel
  /\ UNCH(<<nf, nx, nruns, best, bestjac, besthasjac, hardLSR, lastRun, lastexit, batch, lastreq, curxid, ptxid,
            bestf, bestBeforeFault, faulted, raisedSeen, dykout, softopen>>)

\* the x0 sampling loop of solve_main is closed by the model's creation (or by RunEnd when the run ends at x0)
X0Closed(req) == x0st.open => (x0st.done = req \/ nf = Cfg.maxfun)

ModelInit(e) ==
  LET p == e.m IN
  /\ Chk(IdentClauses(p, "init_") \o << <<"init_one_slot", {"C03", "C17"}, p.npt = 1 /\ p.kopt = 0 /\ ~p.hassave>>,
            <<"x0_samples", {"C02"}, X0Closed(lastreq)>>,
            <<"init_en", {"C03", "C11"}, IF x0st.open THEN p.en[1] = nx ELSE (best.has /\ p.en[1] = best.en /\ p.ns[1] = best.ns /\ p.obj[1] = best.obj)>> >>)
  /\ mdl' = Obs(p) /\ x0st' = NoX0
  /\ UNCH(<<nf, nx, batch, curxid, ptxid, bestf, bestBeforeFault, faulted, raisedSeen>>) /\ UNCH(Rest1)

ModelEv(e, pred, extra) ==
  LET p == e.m IN
  /\ Chk(extra \o << <<"pred_slots", {"C03", "C17", "C11"}, Obs(p).slots = pred.slots>>,
                     <<"pred_kopt", {"C03", "C17", "C04", "C08"}, Obs(p).kopt = pred.kopt>>,
                     <<"pred_save", {"C03", "C17", "C04", "C08"}, Obs(p).save = pred.save>>,
                     <<"pred_jacen", {"C11"}, Obs(p).jacen = pred.jacen>>,
                     <<"pred_numpts", {"C17"}, Obs(p).numpts = pred.numpts>>,
                     <<"pred_fc", {"C16"}, Obs(p).fc = pred.fc>>,
                     <<"pred_dummy", {}, TRUE>> >> \o IdentClauses(p, "slot_"))
  /\ mdl' = Obs(p)
  /\ batch' = IF e.ev \in {"ChangePoint", "AddPoint"} /\ batch.pend /\ e.enarg = batch.pnx THEN [batch EXCEPT !.pend = FALSE, !.needas = batch.prun - 1]
               ELSE IF e.ev = "SavePoint" /\ batch.pend /\ e.enarg = batch.pnx THEN [batch EXCEPT !.pend = FALSE]
               ELSE IF e.ev = "AddSample" /\ batch.needas > 0 THEN [batch EXCEPT !.needas = @ - 1]
               ELSE batch
  /\ UNCH(<<nf, nx, x0st, curxid, ptxid, bestf, bestBeforeFault, faulted, raisedSeen>>) /\ UNCH(Rest1)

ChangePoint(e) ==
  LET k == e.k + 1
      okidx == ChangePointEnabled(mdl, k)
      v == IF okidx /\ k <= e.m.npt THEN e.m.obj[k] ELSE 0
      pred == IF okidx THEN ChangePointM(mdl, k, v, e.enarg) ELSE mdl
  IN ModelEv(e, pred, << <<"cp_index", {"C17"}, okidx>>, <<"cp_evalnum_is_current_point", {"C03", "C11"}, Cfg.parallel \/ e.enarg = nx>>,   \* (parallel initialisation evaluates all points first)
                         \* the incumbent slot itself may only be overwritten by a worse (or NaN) point after the incumbent has been saved (soft restart
                         \* with move_xk saves first; no other site replaces the incumbent by a worse point): otherwise the best point is lost on the spot
                         <<"incumbent_not_overwritten_unsaved", {"C04", "C08"},
                              (Cfg.onesample /\ okidx /\ k = mdl.kopt /\ Len(mdl.slots) >= k /\ ~IsNaN(ObjOpt(mdl)) /\ ~Leq(v, ObjOpt(mdl)))
                                 => (mdl.save.has /\ Leq(mdl.save.obj, ObjOpt(mdl)))>> >>)

AddSample(e) ==
  LET k == e.k + 1
      okidx == k \in 1..Len(mdl.slots)
      pred == IF okidx THEN AddSampleM(mdl, k, e.m.obj[k]) ELSE mdl
  IN ModelEv(e, pred, << <<"as_index", {"C17"}, okidx>> >>)

AddPoint(e) ==
  LET pred == AddPointM(mdl, e.m.obj[e.m.npt], e.enarg)
  IN ModelEv(e, pred, << <<"ap_evalnum_is_current_point", {"C03", "C11"}, e.enarg = nx>> >>)

Swap(e) ==
  LET ok == e.k1 + 1 \in 1..Len(mdl.slots) /\ e.k2 + 1 \in 1..Len(mdl.slots)
  IN ModelEv(e, IF ok THEN SwapM(mdl, e.k1 + 1, e.k2 + 1) ELSE mdl, << >>)

ShiftBase(e) == ModelEv(e, ShiftBaseM(mdl), << >>)
\* (e.exc: the QR factorisation raised - a system with non-finite entries, e.g. coincident points - and nothing was stored: the flag stays unset)
Factorise(e) == ModelEv(e, IF e.exc THEN mdl ELSE FactoriseM(mdl), << <<"factorise_only_when_stale", {"C16"}, ~mdl.fc>> >>)

SavePoint(e) ==
  LET pred == SavePointM(mdl, e.objarg, e.nsarg, e.enarg)
  IN ModelEv(e, pred, << <<"sp_decision", {"C03", "C04", "C08", "C17"}, e.saved = SaveDecision(mdl, e.objarg)>>,
                         <<"sp_evalnum_in_range", {"C03"}, e.enarg \in 1..nx>>,
                         <<"sp_batch_sample_count", {"C02", "C03"}, (batch.pend /\ e.enarg = batch.pnx) => e.nsarg = batch.prun>> >>)

Interp(e) ==
  LET pred == IF e.exc THEN mdl ELSE InterpM(mdl, e.ok)      \* a call that raised (inside its factorisation step) changed nothing
      incumb == ObjOpt(mdl)
      have == IF mdl.save.has /\ (Lt(mdl.save.obj, incumb) \/ IsNaN(incumb)) THEN mdl.save.obj ELSE incumb
  IN ModelEv(e, pred, << <<"interp_fails_on_nan", {"C08"}, HasNonFinite(mdl) => ~e.ok>>,
                         <<"evaluated_point_not_dropped", {"C04", "C08"}, Cfg.parallel \/ ~batch.pend>>,
                         <<"all_samples_added", {"C02", "C17"}, Cfg.parallel \/ batch.needas = 0>>,
                         <<"best_so_far_kept", {"C04"}, (Cfg.det /\ ~Cfg.reg /\ bestf # NoneF) => Leq(have, bestf)>>,
                         <<"radii_delta_ge_rho", {"C18"}, delta >= rho>>,
                         <<"radii_rho_le_rhobeg", {"C18"}, rho <= rhobegr>> >>)

Final(e) ==
  LET f == FinalM(mdl) IN
  /\ Chk(<< <<"final_obj", {"C03", "C04", "C08", "C17"}, f.obj = e.objr>>, <<"final_en", {"C03", "C17"}, f.en = e.enr>>,
            <<"final_ns", {"C17"}, f.ns = e.nsr>>, <<"final_jacen", {"C11"}, f.jacen = e.jacenr>>,
            <<"final_readonly", {"C17"}, SameButFc(Obs(e.m), mdl)>> >>)
  /\ lastRun' = [has |-> TRUE, obj |-> f.obj, en |-> f.en, ns |-> f.ns, jacen |-> f.jacen]
  /\ mdl' = Obs(e.m)
  /\ UNCH(<<nf, nx, nruns, restarts, best, bestjac, besthasjac, hardLSR, rho, delta, rhobegr, lastexit, batch, lastreq, x0st, curxid, ptxid,
            bestf, bestBeforeFault, faulted, raisedSeen, dykout, runrho, softopen>>)

SetEv(e) ==
  /\ Chk(<< <<"radius_positive", {"C18"}, e.val > Cfg.zero>>,
            <<"delta_le_1e10", {"C18"}, e.var = "delta" => e.val <= Cfg.r1e10>> >>)
  /\ (IF e.var = "rho" THEN rho' = e.val /\ delta' = delta ELSE delta' = e.val /\ rho' = rho)
  /\ runrho' = IF e.var = "rho" THEN e.val ELSE runrho
  /\ UNCH(<<nf, nx, mdl, nruns, restarts, best, bestjac, besthasjac, hardLSR, lastRun, rhobegr, lastexit, batch, lastreq, x0st, curxid, ptxid,
            bestf, bestBeforeFault, faulted, raisedSeen, dykout, softopen>>)

ReduceRho(e) ==
  /\ Chk(<< <<"rr_post", {"C18"}, e.rho = rho /\ e.delta = delta>>,
            <<"rr_not_increasing", {"C18"}, e.rho <= e.rho0>>,
            <<"rr_strictly_decreasing_above_rhoend", {"C18", "C07"}, e.rho0 > e.rhoendc => e.rho < e.rho0>>,
            <<"rr_floor_is_documented_rhoend", {"C18", "C10"}, e.rho >= Cfg.rhoenddoc[restarts + 1] /\ e.rhoendc = Cfg.rhoenddoc[restarts + 1]>>,
            <<"rr_delta_ge_rho", {"C18"}, e.delta >= e.rho>> >>)
  /\ UNCH(<<nf, nx, mdl, batch, x0st, curxid, ptxid, bestf, bestBeforeFault, faulted, raisedSeen>>) /\ UNCH(Rest1)

Ratio(e) ==
  /\ Chk(<< <<"ratio_incumbent", {"C04", "C17"}, e.objopt = ObjOpt(mdl)>>,
            <<"ratio_sign_coupling", {"C04"}, (~e.hasexit /\ e.ratio # NaN /\ e.objnew # NaN /\ e.objopt # NaN /\ ~Cfg.reg)
                                                 => ((e.ratio > e.zero) <=> Lt(e.objnew, e.objopt))>> >>)
  /\ UNCH(<<nf, nx, mdl, batch, x0st, curxid, ptxid, bestf, bestBeforeFault, faulted, raisedSeen>>) /\ UNCH(Rest1)

EvalBegin(e) ==
  /\ Chk(<< <<"eb_nf", {"C02"}, e.nf = nf>>, <<"eb_nx", {"C02"}, e.nx = nx>>, <<"eb_req_floor", {"C02"}, e.req >= 1>>,
            <<"eb_req_is_callback_value", {"C02"}, e.req = lastreq>>, <<"eb_not_nested", {"C02"}, ~batch.open>>,
            <<"evaluated_point_not_dropped", {"C04", "C08"}, Cfg.parallel \/ ~batch.pend>>,
            <<"all_samples_added", {"C02", "C17"}, Cfg.parallel \/ batch.needas = 0>> >>)
  /\ batch' = [NoBatch EXCEPT !.open = TRUE, !.req = e.req, !.nf0 = e.nf, !.nx0 = e.nx]
  /\ UNCH(<<nf, nx, mdl, x0st, curxid, ptxid, bestf, bestBeforeFault, faulted, raisedSeen>>) /\ UNCH(Rest1)

EvalEnd(e) ==
  /\ Chk(<< <<"ee_nf", {"C02"}, e.nf = nf /\ e.nf = batch.nf0 + e.run>>,
            <<"ee_nx", {"C02"}, e.nx = nx /\ e.nx = batch.nx0 + (IF e.run > 0 THEN 1 ELSE 0)>>,
            <<"ee_run_is_calls_made", {"C02"}, e.run = batch.done>>,
            <<"ee_samples_exact_unless_budget", {"C02"}, e.run = batch.req \/ (nf = Cfg.maxfun /\ e.hasexit)>>,
            <<"ee_maxfun_flag_truth", {"C10", "C02"}, (e.hasexit /\ e.flag = 1) => nf = Cfg.maxfun>> >>)
  /\ batch' = [NoBatch EXCEPT !.pend = (e.run > 0), !.pnx = e.nx, !.prun = e.run, !.pnan = batch.nan]
  /\ UNCH(<<nf, nx, mdl, x0st, curxid, ptxid, bestf, bestBeforeFault, faulted, raisedSeen>>) /\ UNCH(Rest1)

EvalAbort(e) == /\ Chk(<< >>) /\ batch' = NoBatch
                /\ UNCH(<<nf, nx, mdl, x0st, curxid, ptxid, bestf, bestBeforeFault, faulted, raisedSeen>>) /\ UNCH(Rest1)

SoftBegin(e) ==
  /\ Chk(<< <<"sb_nruns", {"C10"}, e.nruns = nruns>>, <<"sb_objopt", {"C17"}, e.objopt = ObjOpt(mdl)>>, <<"sb_nf", {"C02"}, e.nf = nf>> >>)
  /\ softopen' = e
  /\ UNCH(<<nf, nx, mdl, nruns, restarts, best, bestjac, besthasjac, hardLSR, lastRun, rho, delta, rhobegr, lastexit, batch, lastreq, x0st, curxid, ptxid,
            bestf, bestBeforeFault, faulted, raisedSeen, dykout, runrho>>)

SoftEnd(e) ==
  LET b == softopen
      lsr == IF Lt(b.objopt, b.lastfopt) THEN b.nruns ELSE b.lsr
      admit == (b.nruns - lsr < b.maxunsucc) /\ b.nf < Cfg.maxfun
  IN
  /\ Chk(<< <<"se_lsr", {"C10"}, e.lsr = lsr>>,
            <<"se_refusal", {"C10"}, ~admit => (~e.ok /\ IF b.nruns - lsr >= b.maxunsucc THEN (e.flag = 0 /\ e.msgc = "unsucc") ELSE (e.flag = 1 /\ e.msgc = "maxfun"))>>,
            <<"se_refusal_evaluates_nothing", {"C02", "C10"}, ~admit => nf = b.nf>>,
            <<"se_maxfun_truth", {"C10"}, (~e.ok /\ e.flag = 1) => nf = Cfg.maxfun>>,
            <<"se_unsucc_truth", {"C10"}, (~e.ok /\ e.msgc = "unsucc") => nruns + 1 >= b.maxunsucc>>,
            <<"se_reset", {"C18"}, e.ok => (e.rho = rhobegr /\ e.delta = rhobegr)>>,
            <<"se_rhoend_rescaled", {"C18", "C10", "C07"}, e.ok => e.rhoendc = Cfg.rhoenddoc[restarts + 2]>> >>)
  /\ nruns' = IF e.ok THEN nruns + 1 ELSE nruns
  /\ restarts' = IF e.ok THEN restarts + 1 ELSE restarts
  /\ runrho' = IF e.ok THEN NoneF ELSE runrho
  /\ UNCH(<<nf, nx, mdl, best, bestjac, besthasjac, hardLSR, lastRun, rho, delta, rhobegr, lastexit, batch, lastreq, x0st, curxid, ptxid,
            bestf, bestBeforeFault, faulted, raisedSeen, dykout, softopen>>)

RunEnd(e) ==
  LET atx0 == Len(mdl.slots) = 0          \* the run ended before a model existed (exit at x0)
      better == ~best.has \/ Lt(e.obj, best.obj) \/ IsNaN(best.obj)
  IN
  /\ Chk(<< <<"re_nf", {"C02"}, e.nf = nf>>, <<"re_nx", {"C02"}, e.nx = nx>>, <<"re_nruns", {"C10"}, e.nruns = nruns + 1>>,
            <<"re_x0_samples", {"C02"}, atx0 => X0Closed(lastreq)>>,
            <<"re_x0_exit_names_x0", {"C03"}, atx0 => e.en = nx>>,
            <<"re_is_final_query", {"C03", "C04", "C17"}, ~atx0 => (e.obj = lastRun.obj /\ e.en = lastRun.en /\ e.ns = lastRun.ns)>>,
            <<"re_jacen_is_final_query", {"C11"}, (~atx0 /\ e.hasjac) => e.jacen = lastRun.jacen>>,
            <<"re_maxfun_truth", {"C10"}, e.flag = 1 => nf = Cfg.maxfun>>,
            <<"re_no_open_batch", {"C02"}, ~batch.open>>,
            \* the one deliberate exception: a NaN in the trial evaluation of a trust-region step leaves the run without saving the point (solver.py:595-605)
            <<"evaluated_point_not_dropped", {"C04", "C08"}, Cfg.parallel \/ ~batch.pend \/ (batch.pnan /\ e.flag = -4 /\ e.msgc = "nan")>>,
            <<"all_samples_added", {"C02", "C17"}, Cfg.parallel \/ batch.needas = 0>> >>)
  /\ nruns' = e.nruns
  /\ best' = IF better THEN [has |-> TRUE, obj |-> e.obj, en |-> e.en, ns |-> e.ns] ELSE best
  /\ bestjac' = IF ~best.has THEN e.jacen ELSE IF better /\ e.hasjac THEN e.jacen ELSE bestjac
  /\ besthasjac' = IF ~best.has THEN e.hasjac ELSE IF better /\ e.hasjac THEN TRUE ELSE besthasjac
  /\ hardLSR' = IF ~best.has \/ better THEN e.nruns ELSE hardLSR
  /\ lastexit' = [flag |-> e.flag, msgc |-> e.msgc]
  /\ mdl' = NoModel /\ x0st' = NoX0
  /\ batch' = NoBatch
  /\ UNCH(<<nf, nx, restarts, lastRun, rho, delta, rhobegr, lastreq, curxid, ptxid, bestf, bestBeforeFault, faulted, raisedSeen, dykout, runrho, softopen>>)

Dyk(e) ==
  LET byrule == e.sweeps >= 1 /\ e.below[e.sweeps]
      stoprule == /\ e.whole /\ e.calls = e.p * e.sweeps
                  /\ \A s \in 1..(e.sweeps - 1) : ~e.below[s]
                  /\ (e.maxiter >= 1 => e.sweeps >= 1)
                  /\ (e.sweeps >= 1 => (e.below[e.sweeps] \/ e.sweeps = e.maxiter))
  IN
  /\ Chk(<< <<"dyk_cyclic_order", {"C15", "C09"}, e.order_ok>>,
            <<"dyk_inputs_follow_algorithm", {"C15"}, e.in_ok>>,
            <<"dyk_stop_rule", {"C15", "C09"}, stoprule>>,
            <<"dyk_sweep_cap", {"C15"}, e.sweeps <= e.maxiter>>,
            <<"dyk_result_is_last_projection", {"C15", "C09"}, e.out_is_last>>,
            <<"dyk_box_last_exact", {"C09", "C15"}, (e.site \in {"model", "solver"} /\ Cfg.hasproj) => \A j \in 1..Len(e.boxpos) : e.boxpos[j] \in 1..3>>,
            <<"dyk_feasible_when_converged", {"C09", "C15"}, (e.site \in {"model", "solver"} /\ Cfg.hasproj /\ byrule /\ e.tolok) => e.feas = "ok">>,
            \* direct calls of the routine (harness/c15.py): classes against a reference projection computed to machine precision
            <<"dyk_within_tol_of_every_set", {"C15"}, (e.site = "direct" /\ byrule) => e.feas = "ok">>,
            <<"dyk_near_true_projection", {"C15"}, (e.site = "direct" /\ byrule) => e.refok>>,
            <<"dyk_feasible_input_unchanged", {"C15"}, e.site = "direct" => e.idemok>>,
            <<"dyk_last_box_exact", {"C15"}, e.site = "direct" => e.lastboxok>> >>)
  /\ dykout' = IF e.site \in {"model", "solver"} THEN dykout \cup {<<e.outxid, byrule>>} ELSE dykout
  /\ UNCH(<<nf, nx, mdl, nruns, restarts, best, bestjac, besthasjac, hardLSR, lastRun, rho, delta, rhobegr, lastexit, batch, lastreq, x0st, curxid, ptxid,
            bestf, bestBeforeFault, faulted, raisedSeen, runrho, softopen>>)

\* the diagnostic table, one event with column arrays (C18)
Diag(e) ==
  LET N == e.n
      Row == 1..N
      Nx(i) == i + 1
      sameRun(i) == e.nruns[i] = e.nruns[Nx(i)]
  IN
  /\ Chk(<< <<"diag_columns", {"C18"}, {"rho", "delta", "fk", "nf", "nx", "nruns", "npt", "iter_this_run", "iters_total", "iter_type", "ratio", "nsamples",
                                         "slow_iter", "norm_gk", "norm_sk", "poisedness", "max_distance_xk", "interpolation_error",
                                         "interpolation_condition_number", "interpolation_change_J_norm", "interpolation_total_residual"} \subseteq {e.cols[i] : i \in 1..Len(e.cols)}>>,
            <<"diag_delta_ge_rho_gt_0", {"C18"}, \A i \in Row : e.delta[i] >= e.rho[i] /\ e.rho[i] > Cfg.zero>>,
            <<"diag_rho_le_rhobeg", {"C18"}, \A i \in Row : e.rho[i] <= Cfg.rhobeg>>,
            <<"diag_rho_ge_documented_rhoend", {"C18"}, \A i \in Row : e.nruns[i] + 1 <= Len(Cfg.rhoenddoc) /\ e.rho[i] >= Cfg.rhoenddoc[e.nruns[i] + 1]>>,
            <<"diag_delta_le_1e10", {"C18"}, \A i \in Row : e.delta[i] <= Cfg.r1e10>>,
            <<"diag_rho_monotone_in_run", {"C18"}, Cfg.resetrho \/ \A i \in 1..(N - 1) : sameRun(i) => e.rho[Nx(i)] <= e.rho[i]>>,
            <<"diag_best_monotone", {"C18"}, (Cfg.det /\ ~Cfg.reg) => \A i \in 1..(N - 1) : Leq(e.fk[Nx(i)], e.fk[i]) \/ IsNaN(e.fk[i])>>,
            <<"diag_iters_consecutive", {"C18"}, \A i \in Row : e.iters_total[i] = i - 1>>,
            <<"diag_iter_this_run", {"C18"}, \A i \in 1..(N - 1) : e.iter_this_run[Nx(i)] = (IF sameRun(i) THEN e.iter_this_run[i] + 1 ELSE 0)>>,
            <<"diag_counters_monotone", {"C18"}, \A i \in 1..(N - 1) : e.nf[Nx(i)] >= e.nf[i] /\ e.nx[Nx(i)] >= e.nx[i] /\ e.nruns[Nx(i)] >= e.nruns[i]>>,
            <<"diag_counters_bounded", {"C18"}, \A i \in Row : e.nf[i] <= nf /\ e.nx[i] <= nx /\ e.nx[i] <= e.nf[i] /\ e.nruns[i] < nruns>>,
            <<"diag_counters_bounded_by_result", {"C18"}, \A i \in Row : e.nf[i] <= e.rnf /\ e.nx[i] <= e.rnx /\ e.nruns[i] < e.rnruns>>,
            <<"diag_npt_range", {"C18"}, \A i \in Row : e.npt[i] >= 2 /\ e.npt[i] <= Cfg.maxnpt>> >>)
  /\ UNCH(<<nf, nx, mdl, batch, x0st, curxid, ptxid, bestf, bestBeforeFault, faulted, raisedSeen>>) /\ UNCH(Rest1)

Return(e) ==
  LET nrunbegins == Cardinality({j \in 1..(l - 1) : Ev[j].ev = "RunBegin"})
      nsoft == Cardinality({j \in 1..(l - 1) : Ev[j].ev = "SoftEnd" /\ Ev[j].ok})
      sol == ~e.inputerr
      unsuccOverride == e.msgc = "unsucc"
      guard == e.msgc = "nonfinite"
  IN
  /\ Chk(<< <<"documented_flag", {"C07"}, e.flag \in {0, 1, 2, 3, 5, -1, -2, -3, -4} /\ e.msgnonempty /\ e.str_ok>>,
            <<"inputerr_no_evals", {"C07"}, e.inputerr => (e.nf = 0 /\ e.ncalls = 0)>>,
            <<"valid_input_not_rejected", {"C07"}, Cfg.valid => ~e.inputerr>>,
            <<"rt_nf_is_calls_made", {"C02", "C08"}, sol => (e.nf = nf /\ e.nf = e.ncalls /\ e.nf <= Cfg.maxfun)>>,
            <<"rt_nx_is_last_point", {"C02"}, sol => e.nx = nx>>,
            <<"rt_nx_eq_nf_without_averaging", {"C02"}, (sol /\ Cfg.onesample) => e.nx = e.nf>>,
            <<"rt_bounds_exact", {"C01", "C08", "C05", "C06"}, sol => \A j \in 1..Len(e.xpos) : e.xpos[j] \in 1..3>>,
            <<"rt_x_finite", {"C08"}, sol => e.xfin>>,
            <<"exception_not_swallowed", {"C08"}, ~raisedSeen>>,      \* an exception raised by the objective reaches the caller: solve does not return
            <<"rt_en_in_range", {"C03", "C08"}, sol => e.en \in 1..nx>>,
            <<"rt_x_is_evaluated_point", {"C03", "C08"}, sol => e.xok \in {"t", "r"}>>,
            <<"rt_x_not_reprojected", {"C03"}, sol => e.xok # "r">>,
            <<"rt_resid_is_mean", {"C03"}, sol => e.rok>>,
            <<"rt_obj_consistent", {"C03"}, sol => e.objok>>,
            <<"rt_is_merged_best", {"C03", "C04"}, sol => (e.obj = best.obj /\ e.en = best.en)>>,
            <<"rt_jacen_is_merged", {"C11"}, (sol /\ e.hasjac) => e.jacen = bestjac>>,
            <<"rt_jac_fit", {"C11"}, (sol /\ e.hasjac) => e.jacok # "viol">>,
            <<"rt_best_never_lost", {"C04"}, (sol /\ Cfg.det /\ bestf # NoneF) => (IF Cfg.reg THEN e.c04ok ELSE Leq(e.obj, bestf))>>,
            <<"rt_best_is_harness_min", {"C04"}, (sol /\ Cfg.det /\ e.hasfin /\ ~Cfg.reg) => bestf = e.minf>>,
            <<"rt_fault_finite_best_retained", {"C08"}, (sol /\ bestBeforeFault # NoneF) => (e.objfin /\ (Cfg.det /\ ~Cfg.reg => Leq(e.obj, bestBeforeFault)))>>,
            <<"rt_counter_nruns", {"C10"}, sol => e.nruns = nruns>>,
            <<"rt_nruns_is_restarts_plus_1", {"C10"}, sol => (e.nruns = nrunbegins + nsoft /\ e.nruns = restarts + 1)>>,
            <<"rt_small_truth", {"C10"}, (sol /\ e.flag = 0 /\ e.msgc = "small") => Leq(e.obj, e.thr)>>,
            <<"rt_rhoend_truth", {"C10"}, (sol /\ e.flag = 0 /\ e.msgc = "rhoend") => rho = Cfg.rhoenddoc[restarts + 1]>>,
            <<"rt_maxfun_truth", {"C10"}, (sol /\ e.flag = 1) => e.nf = Cfg.maxfun>>,
            <<"rt_unsucc_truth", {"C10"}, (sol /\ unsuccOverride) => e.nruns >= Cfg.maxunsucc>>,
            <<"rt_success_finite", {"C10", "C08"}, (sol /\ e.flag = 0) => e.objfin>>,
            <<"rt_flag_is_last_exit", {"C10", "C07"}, (sol /\ ~unsuccOverride /\ ~guard) =>
                                                  (IF lastexit.flag = 4 THEN (e.flag = 1 /\ e.msgc = "maxfun")   \* a restart that the budget forbids is reported as the budget
                                                   ELSE (e.flag = lastexit.flag /\ e.msgc = lastexit.msgc))>>,
            <<"rt_optimal_value", {"C05", "C06"}, Cfg.wantopt => (sol /\ e.optok)>>,
            <<"rt_reports_success", {"C05", "C06"}, (Cfg.wantopt /\ e.wantsucc) => (sol /\ e.flag = 0)>>,   \* (with restarts switched on a run legitimately goes on until the budget ends)
            <<"rt_roundtrip", {"C20"}, sol => e.rt_ok>>,
            <<"rt_inputs_unmodified", {"C19"}, e.inputs_ok>>,
            <<"rt_no_fault_no_error_flag", {"C08"}, TRUE>> >>)
  /\ UNCH(<<nf, nx, mdl, batch, x0st, curxid, ptxid, bestf, bestBeforeFault, faulted, raisedSeen>>) /\ UNCH(Rest1)

Raise(e) ==
  /\ Chk(<< <<"no_exception", {"C07", "C08", "C02", "C03", "C04", "C10"}, e.injected \/ Cfg.mayraise>>,
            <<"exception_propagates_unchanged", {"C08"}, e.injected => (e.same /\ raisedSeen)>> >>)
  /\ UNCH(<<nf, nx, mdl, batch, x0st, curxid, ptxid, bestf, bestBeforeFault, faulted, raisedSeen>>) /\ UNCH(Rest1)

Hang(e) ==
  /\ Chk(<< <<"terminates", {"C07", "C08", "C10", "C18", "C02"}, FALSE>> >>)
  /\ UNCH(<<nf, nx, mdl, batch, x0st, curxid, ptxid, bestf, bestBeforeFault, faulted, raisedSeen>>) /\ UNCH(Rest1)

\* C16: a numerical identity class computed by the model driver (harness/modeldriver.py) after a fit / query / base shift
Ident(e) == /\ Chk(<< <<"identity_" \o e.kind, {"C16"}, e.ok>> >>)
            /\ UNCH(<<nf, nx, mdl, batch, x0st, curxid, ptxid, bestf, bestBeforeFault, faulted, raisedSeen>>) /\ UNCH(Rest1)

\* C12 / C13: one call of a step kernel; e.cl is a sequence of <<clause name, owner property, class holds>> computed by harness/kernels.py
Kernel(e) == /\ Chk([i \in 1..Len(e.cl) |-> <<e.name \o "_" \o e.cl[i][1], {e.cl[i][2]}, e.cl[i][3]>>])
             /\ UNCH(<<nf, nx, mdl, batch, x0st, curxid, ptxid, bestf, bestBeforeFault, faulted, raisedSeen>>) /\ UNCH(Rest1)

Other(e) == /\ Chk(<< >>)
            /\ UNCH(<<nf, nx, mdl, batch, x0st, curxid, ptxid, bestf, bestBeforeFault, faulted, raisedSeen>>) /\ UNCH(Rest1)

Step ==
  /\ l <= Len(Ev) /\ l' = l + 1 /\ tid' = tid
  /\ LET e == Ev[l] IN
     CASE e.ev = "Call" -> Call(e)
       [] e.ev = "LogEval" -> LogEval(e)
       [] e.ev = "NSamples" -> NSamples(e)
       [] e.ev = "RunBegin" -> RunBegin(e)
       [] e.ev = "ModelInit" -> ModelInit(e)
       [] e.ev = "ChangePoint" -> ChangePoint(e)
       [] e.ev = "AddSample" -> AddSample(e)
       [] e.ev = "AddPoint" -> AddPoint(e)
       [] e.ev = "Swap" -> Swap(e)
       [] e.ev = "ShiftBase" -> ShiftBase(e)
       [] e.ev = "Factorise" -> Factorise(e)
       [] e.ev = "SavePoint" -> SavePoint(e)
       [] e.ev = "Interp" -> Interp(e)
       [] e.ev = "Final" -> Final(e)
       [] e.ev = "Set" -> SetEv(e)
       [] e.ev = "ReduceRho" -> ReduceRho(e)
       [] e.ev = "Ratio" -> Ratio(e)
       [] e.ev = "EvalBegin" -> EvalBegin(e)
       [] e.ev = "EvalEnd" -> EvalEnd(e)
       [] e.ev = "EvalAbort" -> EvalAbort(e)
       [] e.ev = "SoftBegin" -> SoftBegin(e)
       [] e.ev = "SoftEnd" -> SoftEnd(e)
       [] e.ev = "RunEnd" -> RunEnd(e)
       [] e.ev = "Dyk" -> Dyk(e)
       [] e.ev = "Diag" -> Diag(e)
       [] e.ev = "Return" -> Return(e)
       [] e.ev = "Raise" -> Raise(e)
       [] e.ev = "Hang" -> Hang(e)
       [] e.ev = "Ident" -> Ident(e)
       [] e.ev = "Kernel" -> Kernel(e)
       [] OTHER -> Other(e)

Spec == Init /\ [][Step]_vars

\* state invariants evaluated on every observed state (Appendix B)
BudgetInv == nf <= Cfg.maxfun \/ ~Owned({"C02", "C08"}) \/ \E i \in 1..Len(viol) : viol[i][1] = "budget"
CountersInv == nx <= nf

\* one record per trace when it has been consumed to its end
Report == (l = Len(Ev) + 1) => PrintT(<<"DONE", Traces[tid].id, viol>>)
==================================================================================================
