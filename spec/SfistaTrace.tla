------------------------------------------ MODULE SfistaTrace ------------------------------------------
(* Monitored calls of the real ctrsbox_sfista against Sfista.tla: first snapshot = an initial state for the call's own (theory, cap),
   every next snapshot in Succ(previous), the invariants on every observed state, a terminal last state.  Total verdicts. *)
EXTENDS Sfista, Sequences, Json, IOUtils

Traces == JsonDeserialize(IOEnv.TRACE_FILE)
NTr == Len(Traces)
VARIABLES tid, l, viol
tvars == <<s, tid, l, viol>>
Ev == Traces[tid].ev
Obs(e) == [pc |-> e.pc, k |-> e.k, theory |-> e.theory, cap |-> e.cap, maxit |-> e.maxit, ucount |-> e.ucount]
StateClauses(r, pos) ==
     (IF CountBounds(r) THEN <<>> ELSE << <<"sfista_inv_count_bounds", pos>> >>)
  \o (IF SmoothingFromRunCount(r) THEN <<>> ELSE << <<"sfista_inv_smoothing_from_run_count", pos>> >>)
  \o (IF NoEarlyExit(r) THEN <<>> ELSE << <<"sfista_inv_no_early_exit", pos>> >>)
TInit == /\ tid \in 1..NTr /\ l = 1 /\ s = Obs(Traces[tid].ev[1])
         /\ viol = (IF s = InitRec(s.theory, s.cap) THEN <<>> ELSE << <<"sfista_initial_state", 1>> >>) \o StateClauses(s, 1)
TStep == /\ l < Len(Ev) /\ l' = l + 1 /\ tid' = tid /\ s' = Obs(Ev[l + 1])
         /\ viol' = viol \o (IF s' \in Succ(s) THEN <<>> ELSE << <<"sfista_step_not_in_spec", l + 1>> >>) \o StateClauses(s', l + 1)
                         \o (IF l + 1 = Len(Ev) /\ s'.pc # "done" THEN << <<"sfista_no_terminal_state", l + 1>> >> ELSE <<>>)
TSpec == TInit /\ [][TStep]_tvars
Report == (l = Len(Ev)) => PrintT(<<"DONE", Traces[tid].id, viol>>)
=============================================================================================================
