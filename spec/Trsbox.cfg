SPECIFICATION Spec
CONSTANTS
  N = 3
  MaxInner = 3
  NactFromInit = FALSE
INVARIANT Inv_NactCount
INVARIANT Inv_IterBound
INVARIANT Inv_ItercBound
INVARIANT Inv_CGPassBound
INVARIANT Inv_RestartBound
INVARIANT Inv_OuterBound
PROPERTY MonoProp
PROPERTY Terminates
CHECK_DEADLOCK FALSE
