SPECIFICATION TSpec
CONSTANTS
  Cap = 1
  TMax = 1
  SmoothFromUncapped = FALSE
INVARIANT Report
CHECK_DEADLOCK FALSE
