SPECIFICATION Spec
CONSTANTS
  MaxFun = 5
  NPT = 2
  VMax = 2
  Small <- NoSmall
  MaxSamples = 1
  WithInf = FALSE
  UseRestarts = FALSE
  SoftRestarts = TRUE
  MaxUnsucc = 2
  NumGeom = 1
  MoveXk = TRUE
  UseOldRk = TRUE
  IncNpt = 0
  RhoLevels = 2
  RhoendScaleDrop = 0
  MaxRuns = 3
  RhoDropAny = FALSE
  NoisyObjective = FALSE
  WithHuge = FALSE
  NewDirs = 0
  GrowGeom = FALSE
  RegInc = 0
  DefSoftSwap = FALSE
  DefTrialLost = FALSE
  DefX0EvalNum = FALSE
  DefHardEvalNum = FALSE
  DefDoubleNruns = FALSE
  DefCtrlRhoend = FALSE
  DefSuccessNonFinite = FALSE
  DefNaNCompare = FALSE
  DefSwapNs = FALSE
  DefStaleFactor = FALSE
CONSTRAINT RunsBound
INVARIANT TypeOK
INVARIANT C02_Budget
INVARIANT C02_Counters
INVARIANT C02_NfIsSum
INVARIANT C02_Samples
INVARIANT C03_EveryIter
INVARIANT C03_Returned
INVARIANT C04_BestKept
INVARIANT C04_EveryIter
INVARIANT C08_FiniteRetained
INVARIANT C10_SmallTruth
INVARIANT C10_RhoendTruth
INVARIANT C10_MaxfunTruth
INVARIANT C10_UnsuccTruth
INVARIANT C10_Nruns
INVARIANT C10_SuccessFinite
INVARIANT C11_JacNames
INVARIANT C11_Snapshot
INVARIANT C18_Radii
PROPERTY C02_Monotone
PROPERTY C04_Monotone
CHECK_DEADLOCK FALSE
