------------------------------------------ MODULE DfolsApi ------------------------------------------
(* Configuration space and validation prelude of dfols.solve (solver.py:943-1108), the user_params table
   (params.py:143-289) and the result-object pipeline to_dict -> JSON -> from_dict -> str (solver.py:51-149).

   Three finite tables, each enumerated completely by TLC; every state is concretised into one call of the REAL code
   (R-Api / R-Result, harness/c07.py, harness/c20.py) and the outcome is compared with the outcome this module predicts:

     ArgState   : all combinations of argument-level classes, validated in the code's order (Validate)
     KeyState   : for each of the 71 documented user_params keys, the value classes
                  default | at lower boundary | at upper boundary | below | above | wrong type | true | false
                  with the type / range table below - transcribed once from params.py at the pinned commit and cross-read
                  against docs/advanced.rst; from then on THIS copy is the reference, so a change of the code's table
                  shows up as a disagreement - plus the option dependencies of solver.py:1057-1083
     ResState   : field kinds of a result object that carries a solution

   `None` is not a value class: params(key, new_value=None) is the accessor's read form, so a None in user_params is
   silently ignored; the property does not say what it should do. *)
EXTENDS Integers, Sequences, FiniteSets, TLC, Json

KeyTable == <<
  [key |-> "general.rounding_error_constant", type |-> "float", lo |-> "0.0", hi |-> "none", noneok |-> FALSE],
  [key |-> "general.safety_step_thresh", type |-> "float", lo |-> "0.0", hi |-> "none", noneok |-> FALSE],
  [key |-> "general.check_objfun_for_overflow", type |-> "bool", lo |-> "none", hi |-> "none", noneok |-> FALSE],
  [key |-> "init.random_initial_directions", type |-> "bool", lo |-> "none", hi |-> "none", noneok |-> FALSE],
  [key |-> "init.run_in_parallel", type |-> "bool", lo |-> "none", hi |-> "none", noneok |-> FALSE],
  [key |-> "init.random_directions_make_orthogonal", type |-> "bool", lo |-> "none", hi |-> "none", noneok |-> FALSE],
  [key |-> "interpolation.precondition", type |-> "bool", lo |-> "none", hi |-> "none", noneok |-> FALSE],
  [key |-> "interpolation.throw_error_on_nans", type |-> "bool", lo |-> "none", hi |-> "none", noneok |-> FALSE],
  [key |-> "logging.n_to_print_whole_x_vector", type |-> "int", lo |-> "0", hi |-> "none", noneok |-> FALSE],
  [key |-> "logging.save_diagnostic_info", type |-> "bool", lo |-> "none", hi |-> "none", noneok |-> FALSE],
  [key |-> "logging.save_poisedness", type |-> "bool", lo |-> "none", hi |-> "none", noneok |-> FALSE],
  [key |-> "logging.save_xk", type |-> "bool", lo |-> "none", hi |-> "none", noneok |-> FALSE],
  [key |-> "logging.save_rk", type |-> "bool", lo |-> "none", hi |-> "none", noneok |-> FALSE],
  [key |-> "tr_radius.eta1", type |-> "float", lo |-> "0.0", hi |-> "1.0", noneok |-> FALSE],
  [key |-> "tr_radius.eta2", type |-> "float", lo |-> "0.0", hi |-> "1.0", noneok |-> FALSE],
  [key |-> "tr_radius.gamma_dec", type |-> "float", lo |-> "0.0", hi |-> "1.0", noneok |-> FALSE],
  [key |-> "tr_radius.gamma_inc", type |-> "float", lo |-> "1.0", hi |-> "none", noneok |-> FALSE],
  [key |-> "tr_radius.gamma_inc_overline", type |-> "float", lo |-> "1.0", hi |-> "none", noneok |-> FALSE],
  [key |-> "tr_radius.alpha1", type |-> "float", lo |-> "0.0", hi |-> "1.0", noneok |-> FALSE],
  [key |-> "tr_radius.alpha2", type |-> "float", lo |-> "0.0", hi |-> "1.0", noneok |-> FALSE],
  [key |-> "model.abs_tol", type |-> "float", lo |-> "0.0", hi |-> "none", noneok |-> FALSE],
  [key |-> "model.rel_tol", type |-> "float", lo |-> "0.0", hi |-> "1.0", noneok |-> FALSE],
  [key |-> "slow.history_for_slow", type |-> "int", lo |-> "1", hi |-> "none", noneok |-> FALSE],
  [key |-> "slow.thresh_for_slow", type |-> "float", lo |-> "0.0", hi |-> "none", noneok |-> FALSE],
  [key |-> "slow.max_slow_iters", type |-> "int", lo |-> "0", hi |-> "none", noneok |-> FALSE],
  [key |-> "noise.quit_on_noise_level", type |-> "bool", lo |-> "none", hi |-> "none", noneok |-> FALSE],
  [key |-> "noise.scale_factor_for_quit", type |-> "float", lo |-> "0.0", hi |-> "none", noneok |-> FALSE],
  [key |-> "noise.multiplicative_noise_level", type |-> "float", lo |-> "0.0", hi |-> "none", noneok |-> TRUE],
  [key |-> "noise.additive_noise_level", type |-> "float", lo |-> "0.0", hi |-> "none", noneok |-> TRUE],
  [key |-> "regression.num_extra_steps", type |-> "int", lo |-> "0", hi |-> "none", noneok |-> FALSE],
  [key |-> "regression.increase_num_extra_steps_with_restart", type |-> "int", lo |-> "0", hi |-> "none", noneok |-> FALSE],
  [key |-> "regression.momentum_extra_steps", type |-> "bool", lo |-> "none", hi |-> "none", noneok |-> FALSE],
  [key |-> "restarts.use_restarts", type |-> "bool", lo |-> "none", hi |-> "none", noneok |-> FALSE],
  [key |-> "restarts.max_unsuccessful_restarts", type |-> "int", lo |-> "0", hi |-> "none", noneok |-> FALSE],
  [key |-> "restarts.rhoend_scale", type |-> "float", lo |-> "0.0", hi |-> "none", noneok |-> FALSE],
  [key |-> "restarts.use_soft_restarts", type |-> "bool", lo |-> "none", hi |-> "none", noneok |-> FALSE],
  [key |-> "restarts.soft.num_geom_steps", type |-> "int", lo |-> "0", hi |-> "none", noneok |-> FALSE],
  [key |-> "restarts.soft.move_xk", type |-> "bool", lo |-> "none", hi |-> "none", noneok |-> FALSE],
  [key |-> "restarts.soft.max_fake_successful_steps", type |-> "int", lo |-> "1", hi |-> "none", noneok |-> FALSE],
  [key |-> "restarts.hard.use_old_rk", type |-> "bool", lo |-> "none", hi |-> "none", noneok |-> FALSE],
  [key |-> "restarts.increase_npt", type |-> "bool", lo |-> "none", hi |-> "none", noneok |-> FALSE],
  [key |-> "restarts.increase_npt_amt", type |-> "int", lo |-> "1", hi |-> "none", noneok |-> FALSE],
  [key |-> "restarts.hard.increase_ndirs_initial_amt", type |-> "int", lo |-> "0", hi |-> "none", noneok |-> FALSE],
  [key |-> "restarts.max_npt", type |-> "int", lo |-> "npt", hi |-> "none", noneok |-> FALSE],
  [key |-> "restarts.auto_detect", type |-> "bool", lo |-> "none", hi |-> "none", noneok |-> FALSE],
  [key |-> "restarts.auto_detect.history", type |-> "int", lo |-> "1", hi |-> "none", noneok |-> FALSE],
  [key |-> "restarts.auto_detect.min_chgJ_slope", type |-> "float", lo |-> "0.0", hi |-> "none", noneok |-> FALSE],
  [key |-> "restarts.auto_detect.min_correl", type |-> "float", lo |-> "0.0", hi |-> "1.0", noneok |-> FALSE],
  [key |-> "growing.ndirs_initial", type |-> "int", lo |-> "1", hi |-> "npt-1", noneok |-> FALSE],
  [key |-> "growing.num_new_dirns_each_iter", type |-> "int", lo |-> "0", hi |-> "none", noneok |-> FALSE],
  [key |-> "growing.delta_scale_new_dirns", type |-> "float", lo |-> "0.0", hi |-> "none", noneok |-> FALSE],
  [key |-> "growing.do_geom_steps", type |-> "bool", lo |-> "none", hi |-> "none", noneok |-> FALSE],
  [key |-> "growing.reset_delta", type |-> "bool", lo |-> "none", hi |-> "none", noneok |-> FALSE],
  [key |-> "growing.reset_rho", type |-> "bool", lo |-> "none", hi |-> "none", noneok |-> FALSE],
  [key |-> "growing.gamma_dec", type |-> "float", lo |-> "0.0", hi |-> "1.0", noneok |-> FALSE],
  [key |-> "growing.safety.do_safety_step", type |-> "bool", lo |-> "none", hi |-> "none", noneok |-> FALSE],
  [key |-> "growing.safety.reduce_delta", type |-> "bool", lo |-> "none", hi |-> "none", noneok |-> FALSE],
  [key |-> "growing.safety.full_geom_step", type |-> "bool", lo |-> "none", hi |-> "none", noneok |-> FALSE],
  [key |-> "growing.full_rank.use_full_rank_interp", type |-> "bool", lo |-> "none", hi |-> "none", noneok |-> FALSE],
  [key |-> "growing.full_rank.scale_factor", type |-> "float", lo |-> "0.0", hi |-> "none", noneok |-> TRUE],
  [key |-> "growing.full_rank.svd_scale_factor", type |-> "float", lo |-> "0.0", hi |-> "1.0", noneok |-> TRUE],
  [key |-> "growing.full_rank.min_sing_val", type |-> "float", lo |-> "0.0", hi |-> "1.0", noneok |-> TRUE],
  [key |-> "growing.full_rank.svd_max_jac_cond", type |-> "float", lo |-> "1.0", hi |-> "none", noneok |-> TRUE],
  [key |-> "growing.perturb_trust_region_step", type |-> "bool", lo |-> "none", hi |-> "none", noneok |-> FALSE],
  [key |-> "dykstra.d_tol", type |-> "float", lo |-> "0.0", hi |-> "none", noneok |-> FALSE],
  [key |-> "dykstra.max_iters", type |-> "int", lo |-> "0", hi |-> "none", noneok |-> FALSE],
  [key |-> "matrix_rank.r_tol", type |-> "float", lo |-> "0.0", hi |-> "none", noneok |-> FALSE],
  [key |-> "func_tol.criticality_measure", type |-> "float", lo |-> "0.0", hi |-> "1.0", noneok |-> FALSE],
  [key |-> "func_tol.tr_step", type |-> "float", lo |-> "0.0", hi |-> "1.0", noneok |-> FALSE],
  [key |-> "func_tol.max_iters", type |-> "int", lo |-> "0", hi |-> "none", noneok |-> FALSE],
  [key |-> "sfista.max_iters_scaling", type |-> "float", lo |-> "1.0", hi |-> "none", noneok |-> FALSE]
>>

\* ---------------------------------------------------------------------------------- argument classes
ArgDomain == [ hreg   : {"none", "ok", "noprox", "nolh", "lhzero"},
               npt    : {"ok", "small"},
               rhobeg : {"ok", "zero", "neg"},
               rhoend : {"ok", "neg"},
               order  : {"ok", "rhobeg_le_rhoend"},
               maxfun : {"ok", "zero"},
               gap    : {"ok", "narrow", "scaled_ok", "scaled_narrow"},   \* scaled_*: scaling_within_bounds, where the box is [0,1]^n and rhobeg is in scaled units
                                                                          \* (scaled_ok: user box narrower than 2*rhobeg; scaled_narrow: wide user box, rhobeg > 1/2)
               safety : {"ok", "both"},          \* growing.safety.full_geom_step and growing.safety.reduce_delta
               grow   : {"ok", "both"},          \* growing.full_rank.use_full_rank_interp and growing.perturb_trust_region_step
               noise  : {"ok", "both", "both_zero"}, \* both noise levels given while quitting on noise level (one of them at its boundary 0.0)
               par    : {"ok", "bad"},           \* init.run_in_parallel without init.random_initial_directions
               reset  : {"ok", "bad"} ]          \* growing.reset_rho without growing.reset_delta

\* first failing check in the code's order (solver.py:1011-1083); "valid" when none fails.
\* rhobeg <= rhoend is only reachable as its own class when both radii are positive.
Validate(a) ==
  IF a.hreg = "noprox" THEN "noprox"
  ELSE IF a.hreg = "nolh" THEN "nolh"
  ELSE IF a.hreg = "lhzero" THEN "lhpos"
  ELSE IF a.npt = "small" THEN "npt"
  ELSE IF a.rhobeg # "ok" THEN "rhobeg"
  ELSE IF a.rhoend # "ok" THEN "rhoend"
  ELSE IF a.order # "ok" THEN "order"
  ELSE IF a.maxfun # "ok" THEN "maxfun"
  ELSE IF a.gap \in {"narrow", "scaled_narrow"} THEN "gap"
  ELSE IF a.safety # "ok" THEN "safety"
  ELSE IF a.grow # "ok" THEN "grow"
  ELSE IF a.noise # "ok" THEN "noise"
  ELSE IF a.par # "ok" THEN "par"
  ELSE IF a.reset # "ok" THEN "reset"
  ELSE "valid"

\* ------------------------------------------------------------------------------------- key classes
\* "default": some in-range value;  "explicit_default": the very value the parameter has when it is not given, passed explicitly (legal, and it marks the
\* parameter as set by the user);  "nan": not-a-number for a float-typed parameter (in no range, so an input error)
ClassesOf(r) ==
  IF r.type = "bool" THEN {"true", "false", "wrongtype"}
  ELSE {"default", "explicit_default", "wrongtype"} \cup (IF r.lo # "none" THEN {"atlo", "below"} ELSE {}) \cup (IF r.hi # "none" THEN {"athi", "above"} ELSE {})
       \cup (IF r.type = "float" THEN {"nan"} ELSE {})
\* the shape of the problem a key is tried on: m >= n, or the under-determined case m < n (where solve switches the default growing method itself)
Shapes == {"over", "under"}

\* option dependencies that make a single in-range value an input error (defaults: random_initial_directions FALSE,
\* reset_delta FALSE, use_full_rank_interp TRUE)
DependencyError(key, cls) ==
  \/ key = "init.run_in_parallel" /\ cls = "true"
  \/ key = "growing.reset_rho" /\ cls = "true"
  \/ key = "growing.perturb_trust_region_step" /\ cls = "true"
KeyValid(r, cls) == cls \in {"default", "explicit_default", "atlo", "athi", "true", "false"} /\ ~DependencyError(r.key, cls)

\* --------------------------------------------------------------------------------------- result kinds
ResDomain == [ x      : {"finite", "nan"},
               resid  : {"short", "long", "nan", "inf"},
               jac    : {"none", "small", "large", "nan", "inf"},
               jacen  : {"none", "short", "long"},
               obj    : {"finite", "nan", "inf"},
               flag   : {0, 1, 2, 3, 5, -2, -3, -4},
               diag   : {"none", "table", "table_nan", "table_inf"},      \* infinite entries: every field must still come back exactly (None stands for NaN only)
               nruns  : {1, 3},
               repl   : BOOLEAN ]

\* ---------------------------------------------------------------------------------------- the machine
VARIABLES kind, st
vars == <<kind, st>>
Init == \/ kind = "arg" /\ st \in ArgDomain
        \/ kind = "key" /\ \E i \in 1..Len(KeyTable) : \E c \in ClassesOf(KeyTable[i]) : \E sh \in Shapes :
                             st = [key |-> KeyTable[i].key, row |-> KeyTable[i], cls |-> c, shape |-> sh]
        \/ kind = "unknown" /\ st = [key |-> "no.such.parameter"]
        \/ kind = "res" /\ st \in ResDomain
Next == UNCHANGED vars
Spec == Init /\ [][Next]_vars

Expected == CASE kind = "arg" -> [outcome |-> IF Validate(st) = "valid" THEN "runs" ELSE "inputerr", reason |-> Validate(st)]
              [] kind = "key" -> [outcome |-> IF KeyValid(st.row, st.cls) THEN "runs" ELSE "inputerr", reason |-> st.cls]
              [] kind = "unknown" -> [outcome |-> "valueerror", reason |-> "unknown"]
              [] OTHER -> [outcome |-> "roundtrip", reason |-> "res"]

\* design-level sanity of the table itself
TableOK == /\ Len(KeyTable) = 71
           /\ \A i, j \in 1..Len(KeyTable) : i # j => KeyTable[i].key # KeyTable[j].key
           /\ \A i \in 1..Len(KeyTable) : KeyTable[i].type \in {"bool", "int", "float"} /\ (KeyTable[i].type = "bool" => KeyTable[i].lo = "none" /\ KeyTable[i].hi = "none")
\* every invalid argument class is reported (never "valid") and exactly the all-ok combinations are valid
ValidateTotal == kind = "arg" => ((Validate(st) = "valid") <=> (\A f \in DOMAIN st : st[f] \in {"ok", "none", "scaled_ok"}))

Emit == PrintT("STATE" \o ToJson([kind |-> kind, st |-> st, expected |-> Expected]))
EmitInv == Emit
====================================================================================================
