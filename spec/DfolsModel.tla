--------------------------------------- MODULE DfolsModel ---------------------------------------
(* Bookkeeping semantics of dfols.model.Model (model.py:182-282, 343-403) as pure operators on an abstract
   model record.  This module is the single source of truth for that semantics: it is
     - explored exhaustively by ModelMC.tla (properties C17, C16-flags) and embedded in Dfols.tla (C03, C04, C08, C10, C11),
     - used by DfolsTrace.tla / ModelTrace.tla to PREDICT the post-state of every Model method call observed in the
       real code (trace validation), and
     - replayed into the real Model class (spec -> code) by harness/replay_model.py.

   Abstract model record
     m.slots   : Seq([en, ns, obj])   one record per interpolation point that has been given a value
                 en  = evaluation-point number (1-based, "nx" numbering) of the point stored in the slot
                 ns  = number of samples averaged in the slot
                 obj = objective value stored for the slot (a rank / small integer, or NaN)
     m.kopt    : 1..Len(slots)        incumbent index
     m.save    : [has, obj, en, ns, jacen]   the "saved point" slot
     m.jacen   : Seq(Nat)             evaluation numbers used by the last successful fit (model_jac_eval_nums)
     m.fc      : BOOLEAN              factorisation_current
     m.numpts  : Nat                  capacity (num_pts)

   Objective values are integers with the usual order, plus one reserved value NaN with IEEE semantics
   (every comparison involving NaN is FALSE).  +inf / -inf are ordinary largest / smallest integers.

   The Def* constants name deliberate deviations: TRUE describes the code as found at the pinned commit
   (defects F-08, F-17 of DESIGN.md section 6), FALSE the repaired code.  The registered checks run with FALSE;
   the TRUE settings are kept so that TLC can exhibit the defect (sensitivity of the invariants). *)
EXTENDS Integers, Sequences, FiniteSets

CONSTANTS DefNaNCompare,   \* F-08: NaN-unsafe comparisons in change_point / add_new_sample / save_point / get_final_results
          DefSwapNs,       \* F-17: swap_points does not swap the sample counts
          DefStaleFactor   \* F-31: add_new_sample moves the best point without invalidating the cached factorisation (which is built around it)

NaN == -999999
IsNaN(a) == a = NaN
Lt(a, b)  == a # NaN /\ b # NaN /\ a < b
Leq(a, b) == a # NaN /\ b # NaN /\ a <= b

NoSave == [has |-> FALSE, obj |-> 0, en |-> -1, ns |-> -1, jacen |-> <<>>]
Slot(en, ns, obj) == [en |-> en, ns |-> ns, obj |-> obj]

ObjOpt(m) == m.slots[m.kopt].obj

\* change_point / add_new_point: does a value v displace an incumbent whose value is inc?
Displaces(v, inc) == Lt(v, inc) \/ (~DefNaNCompare /\ IsNaN(inc) /\ ~IsNaN(v))

\* model.change_point(k, x, rvec, eval_num): k = Len+1 appends (growing); the incumbent test is evaluated AFTER the
\* overwrite, so overwriting the incumbent itself never moves kopt.
ChangePointM(m, k, v, en) ==
  LET post == IF k = Len(m.slots) + 1 THEN Append(m.slots, Slot(en, 1, v)) ELSE [m.slots EXCEPT ![k] = Slot(en, 1, v)]
  IN  [m EXCEPT !.slots = post, !.kopt = IF Displaces(v, post[m.kopt].obj) THEN k ELSE m.kopt, !.fc = FALSE]

ChangePointEnabled(m, k) == (k \in 1..Len(m.slots)) \/ (k = Len(m.slots) + 1 /\ Len(m.slots) < m.numpts)

\* numpy.argmin (as found: the first NaN wins) / numpy.nanargmin guarded against all-NaN (repaired)
FirstMin(s, idx) == CHOOSE k \in idx : \A j \in idx : (s[k].obj < s[j].obj) \/ (s[k].obj = s[j].obj /\ k <= j)
ArgMinRule(s, kold) ==
  LET nan == {k \in 1..Len(s) : IsNaN(s[k].obj)}
      fin == (1..Len(s)) \ nan
  IN  IF DefNaNCompare
      THEN (IF nan # {} THEN CHOOSE k \in nan : \A j \in nan : k <= j ELSE FirstMin(s, fin))
      ELSE (IF fin = {} THEN kold ELSE FirstMin(s, fin))

\* model.add_new_sample(k, rvec_extra): vnew is the objective of the new mean (environment input)
AddSampleM(m, k, vnew) ==
  LET post == [m.slots EXCEPT ![k] = Slot(m.slots[k].en, m.slots[k].ns + 1, vnew)]
      knew == ArgMinRule(post, m.kopt)
  IN  [m EXCEPT !.slots = post, !.kopt = knew, !.fc = IF knew # m.kopt /\ ~DefStaleFactor THEN FALSE ELSE m.fc]

\* n-1 further samples added in one step (the mean's objective vnew is an environment input)
AddSampleN(m, k, vnew, n) ==
  LET post == [m.slots EXCEPT ![k] = Slot(m.slots[k].en, n, vnew)]
      knew == ArgMinRule(post, m.kopt)
  IN  [m EXCEPT !.slots = post, !.kopt = knew, !.fc = IF knew # m.kopt /\ ~DefStaleFactor THEN FALSE ELSE m.fc]

\* model.add_new_point(x, rvec, eval_num)  (soft restarts with increasing npt)
AddPointM(m, v, en) ==
  LET post == Append(m.slots, Slot(en, 1, v))
  IN  [m EXCEPT !.slots = post, !.numpts = m.numpts + 1, !.fc = FALSE,
                !.kopt = IF Displaces(v, m.slots[m.kopt].obj) THEN Len(post) ELSE m.kopt]

\* model.swap_points(k1, k2)
SwapM(m, k1, k2) ==
  LET a == m.slots[k1]
      b == m.slots[k2]
      post == [m.slots EXCEPT ![k1] = Slot(b.en, IF DefSwapNs THEN a.ns ELSE b.ns, b.obj),
                              ![k2] = Slot(a.en, IF DefSwapNs THEN b.ns ELSE a.ns, a.obj)]
  IN  [m EXCEPT !.slots = post, !.fc = FALSE,
                !.kopt = IF m.kopt = k1 THEN k2 ELSE IF m.kopt = k2 THEN k1 ELSE m.kopt]

\* model.shift_base(s): abstract slots unchanged, the cached factorisation is invalidated
ShiftBaseM(m) == [m EXCEPT !.fc = FALSE]

\* model.save_point(x, rvec, nsamples, eval_num)
SaveDecision(m, v) == ~m.save.has \/ Leq(v, m.save.obj) \/ (~DefNaNCompare /\ IsNaN(m.save.obj) /\ ~IsNaN(v))
SavePointM(m, v, ns, en) ==
  IF SaveDecision(m, v) THEN [m EXCEPT !.save = [has |-> TRUE, obj |-> v, en |-> en, ns |-> ns, jacen |-> m.jacen]] ELSE m

\* model.get_final_results(): incumbent or saved point
FinalIsIncumbent(m) == ~m.save.has \/ Leq(ObjOpt(m), m.save.obj) \/ (~DefNaNCompare /\ IsNaN(m.save.obj))
FinalM(m) ==
  IF FinalIsIncumbent(m)
  THEN [obj |-> ObjOpt(m), en |-> m.slots[m.kopt].en, ns |-> m.slots[m.kopt].ns, jacen |-> m.jacen]
  ELSE [obj |-> m.save.obj, en |-> m.save.en, ns |-> m.save.ns, jacen |-> m.save.jacen]

\* model.factorise_geom_system / interpolate_mini_models_svd: a successful fit snapshots the evaluation numbers
\* model_jac_eval_nums = eval_num.copy(): the WHOLE array of capacity num_pts, zeros for slots not yet filled (growing phase)
EnSeq(m) == [k \in 1..m.numpts |-> IF k <= Len(m.slots) THEN m.slots[k].en ELSE 0]
InterpM(m, ok) == IF ok THEN [m EXCEPT !.jacen = EnSeq(m), !.fc = TRUE] ELSE [m EXCEPT !.fc = TRUE]
FactoriseM(m) == [m EXCEPT !.fc = TRUE]

HasNonFinite(m) == \E k \in 1..Len(m.slots) : IsNaN(m.slots[k].obj)

InitModel(numpts, en0, ns0, v0) ==
  [slots |-> <<Slot(en0, ns0, v0)>>, kopt |-> 1, save |-> NoSave, jacen |-> <<>>, fc |-> FALSE, numpts |-> numpts]
==================================================================================================
