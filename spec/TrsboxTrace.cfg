SPECIFICATION TSpec
CONSTANTS
  N = 1
  MaxInner = 1
  NactFromInit = FALSE
INVARIANT Report
CHECK_DEADLOCK FALSE
