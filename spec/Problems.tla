------------------------------------------ MODULE Problems ------------------------------------------
(* Optimality-condition case analysis for the two convergence-to-optimum properties (C05, C06).

   TLA+ cannot reason about convergence; what this module contributes is the exhaustive enumeration of KKT PATTERNS
   (DESIGN.md 2.4): per coordinate, how the solution sits in the feasible set and what the multiplier / subgradient looks
   like there.  For every pattern the concretiser (harness/c05.py, harness/c06.py) builds an instance whose optimality
   conditions hold BY CONSTRUCTION at a chosen x*, so the optimal value is known exactly without a second solver; the real
   solver runs under the recorder, its trace is validated like any other, and the final clause compares soln.obj with it.

   C05  r(x) = A x - b, box constraints:   status_i in {free, atL, atU}   (multiplier 0 / > 0 / < 0, strictly complementary)
   C06  + lambda*||x||_1:                  status_i in {pos, neg, zero_strict, zero_kink, atL, atU}
                                           (subgradient -lambda / +lambda / inside the interval / at its end / bound active with x_i # 0)
        + lambda*||x||_2:                  whole-vector status in {nonzero, zero_strict} *)
EXTENDS Integers, Sequences, FiniteSets, TLC, Json

CONSTANTS MaxN

VARIABLES prop, n, status, mclass, x0class, scaling, nptclass, cond, reg, bounded, args, special
vars == <<prop, n, status, mclass, x0class, scaling, nptclass, cond, reg, bounded, args, special>>

Init == \/ /\ prop = "C05" /\ n \in 1..MaxN /\ bounded \in BOOLEAN
           /\ status \in [1..n -> IF bounded THEN {"free", "atL", "atU"} ELSE {"free"}]
           /\ mclass \in {"under", "square", "over"} /\ x0class \in {"interior", "onbound", "infeasible"}
           /\ scaling \in (IF bounded THEN BOOLEAN ELSE {FALSE}) /\ nptclass \in {"n+1", "mid", "2n+1"} /\ cond \in {1, 10, 100, 1000}
           /\ reg = "none" /\ args = FALSE
           \* special: narrow_box - box sides shorter than 2*0.1 (only valid with internal scaling);
           \*          solution_on_init_grid - consistent data whose solution is one of the initial coordinate points (the run ends while the set is built);
           \*          tiny_sensitivities - |A| ~ 1e-8 with the solution ~ 1e6 away from the start (well conditioned, badly scaled: model gradients ~ 1e-10)
           /\ special \in {"none"} \cup (IF scaling THEN {"narrow_box"} ELSE {})
                                   \cup (IF ~scaling /\ mclass # "under" /\ x0class = "interior" /\ \A i \in 1..n : status[i] = "free" THEN {"solution_on_init_grid"} ELSE {})
                                   \cup (IF ~scaling /\ mclass # "under" /\ x0class = "interior" THEN {"tiny_sensitivities"} ELSE {})
                                   \* huge_sensitivities - |A| ~ 1e7 .. 1e8 (variables in small units; conditioning unchanged), residual at the solution of the same
                                   \* relative size: model Hessians ~ 1e16, conjugate-gradient step MULTIPLIERS ~ 1e-16 - a multiplier is not a length
                                   \cup (IF ~scaling /\ mclass = "over" /\ x0class = "interior" THEN {"huge_sensitivities"} ELSE {})
                                   \* start_on_active_face - the start lies on every bound that is active at the solution (multipliers large against the free
                                   \*          variables' gradient) and the free variables start several initial radii from their optimum: every step is a step
                                   \*          ALONG the face, with fixed variables whose gradient components dominate;
                                   \* warm_start - the start is the solution itself up to 1e-8 .. 1e-6 in the free variables (a re-solve): the run consists of
                                   \*          safety steps and radius reductions until rho is of that size, then one genuine step along the active face
                                   \cup (IF bounded /\ mclass # "under" /\ x0class = "onbound" /\ nptclass = "n+1"
                                            /\ (\E i \in 1..n : status[i] = "free") /\ (\E i \in 1..n : status[i] # "free")
                                         THEN {"start_on_active_face", "warm_start"} ELSE {})
           /\ (mclass = "under" => n >= 2)
           /\ (~bounded => x0class = "interior")
        \/ /\ prop = "C06" /\ n \in 1..MaxN /\ bounded \in BOOLEAN /\ reg \in {"l1", "l2"}
           /\ status \in [1..n -> IF reg = "l2" THEN {"nonzero", "zero_strict"}
                                  ELSE IF bounded THEN {"pos", "neg", "zero_strict", "zero_kink", "atL", "atU"} ELSE {"pos", "neg", "zero_strict", "zero_kink"}]
           /\ (reg = "l2" => (~bounded /\ \A i, j \in 1..n : status[i] = status[j]))
           /\ mclass \in {"square", "over"} /\ x0class \in {"interior"} /\ scaling = FALSE /\ nptclass = "n+1" /\ cond \in {1, 10, 100}
           /\ args \in BOOLEAN
           \* special: the data are consistent with a point of the initial coordinate grid (zero residual there, regulariser not small): the
           \* 'objective is sufficiently small' test must include the regulariser
           \* special: hard restarts with extra arguments for h and for the proximal operator (every run of the restart loop must hand them on)
           /\ special \in {"none"} \cup (IF reg = "l1" /\ ~bounded /\ \A i \in 1..n : status[i] = "pos" THEN {"zero_residual_on_init_grid"} ELSE {})
                                   \cup (IF args THEN {"hard_restarts"} ELSE {})
                                   \* averaging: every point sampled twice (deterministic residuals, so the optimum is the same): the regulariser of a
                                   \* re-sampled point is h at THAT point.  lh_other_type: the Lipschitz constant given as a positive number that is not a
                                   \* Python float (int for the l2-norm, numpy.float32 for l1) - "a positive number" is all the guide asks for
                                   \cup (IF ~args THEN {"averaging", "lh_other_type"} ELSE {})
                                   \* soft_restarts_adding_points: soft restarts that append interpolation points (restarts.increase_npt): the appended
                                   \* point's stored objective needs h at the ABSOLUTE point like every other entry of the set
                                   \cup (IF ~args /\ reg = "l1" /\ n >= 2 THEN {"soft_restarts_adding_points"} ELSE {})
                                   \* strong_regulariser: lambda three to four decades ABOVE |A|^2 ("lambda over several decades"), every component deep inside
                                   \* its kink interval (solution 0): the smoothed-FISTA step solver's theoretical iteration count exceeds its cap, so the
                                   \* smoothing parameter and the number of iterations actually run must come from the same (capped) count
                                   \cup (IF reg = "l1" /\ \A i \in 1..n : status[i] = "zero_strict" THEN {"strong_regulariser"} ELSE {})
Next == UNCHANGED vars
Spec == Init /\ [][Next]_vars
Emit == PrintT("PROBLEM" \o ToJson([prop |-> prop, n |-> n, status |-> status, mclass |-> mclass, x0class |-> x0class, scaling |-> scaling,
                                     nptclass |-> nptclass, cond |-> cond, reg |-> reg, bounded |-> bounded, args |-> args, special |-> special]))
EmitInv == Emit
TypeOK == n \in 1..MaxN
=====================================================================================================
