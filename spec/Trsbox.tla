--------------------------------------------- MODULE Trsbox ---------------------------------------------
(* The active-set machine INSIDE dfols.trust_region.trsbox / alt_trust_step (C12; termination part of C07).

   The kernel is a port of Powell's TRSBOX: a truncated conjugate-gradient phase over the free variables that fixes a
   variable whenever a step meets its bound and restarts, followed - when the trust-region boundary is reached - by the
   "alternative iteration" (rotations in the plane of the reduced step and the reduced gradient), which again fixes
   variables.  The arithmetic is abstracted: WHICH exit fires, WHICH variable meets its bound and whether the step length
   is positive are nondeterministic; what is kept exactly is the bookkeeping the code's own termination argument rests on
   (xbdi, nact, iterc, itermax, the restart flag beta = 0) and the loop structure, one action per loop pass, observed at
   the first statement of each pass.

   The state is ONE record so that the same successor operators serve three uses: Next for TLC (exhaustive for n <= 4,
   liveness), membership tests for trace validation of real calls of any dimension (TrsboxTrace.tla: a monitored call of
   the real kernel must be a behaviour, and every invariant below is evaluated on every observed state), and coverage
   (which abstract transitions real calls exercised).

   Named deviation from Powell's Fortran, kept because the code has it: NACT is NOT incremented for the variables fixed
   initially (NactFromInit = FALSE describes the code; TRUE the Fortran).  Consequence proved here: the "nact >= n-1"
   return of the alternative iteration can be late, yet every run still terminates because an empty free set forces the
   inner exit. *)
EXTENDS Naturals, FiniteSets, TLC

CONSTANTS N,              \* dimension for model checking
          MaxInner,       \* model-checking cap on passes of the inner alternative loop (the code's is 100 n^2; its real bound is numerical)
          NactFromInit    \* FALSE: the code as it is

VARIABLE st

Idx(n) == 1..n
Free(s) == {i \in Idx(s.n) : s.xb[i] = 0}             \* xb[i]: 0 free, 1 fixed at its lower bound, 2 fixed at its upper bound
NFixed(s) == s.n - Cardinality(Free(s))

InitRec(n, x) ==
  LET f0 == Cardinality({i \in Idx(n) : x[i] # 0})
  IN [pc |-> "cg", n |-> n, xb |-> x, nact |-> IF NactFromInit THEN f0 ELSE 0, fix0 |-> f0, iterc |-> 0, itermax |-> 0, bz |-> TRUE,
      gz |-> FALSE, passes |-> 0, outer |-> 0, inner |-> 0, rst |-> 0]

\* the restart flags are only read by the conjugate-gradient loop: they are cleared when it is left, so every later state is fully observable
Done(s) == [s EXCEPT !.pc = "done", !.bz = FALSE, !.gz = FALSE]
ToAlt(s) == [s EXCEPT !.pc = "alt", !.bz = FALSE, !.gz = FALSE]

(* ---- one pass of the conjugate-gradient loop (trust_region.py, "for ii in range(MAX_LOOP_ITERS)") ---- *)
StepSucc(q, hit, pos) ==
  LET ic == q.iterc + (IF pos THEN 1 ELSE 0)
      r == [q EXCEPT !.iterc = ic]
  IN IF hit # 0
       THEN UNION { LET f == [r EXCEPT !.xb[hit] = v, !.nact = @ + 1]
                    IN {ToAlt(f),                                        \* delsq used up: alternative iteration
                        [f EXCEPT !.bz = TRUE, !.rst = @ + 1]}            \* restart CG on the smaller free set
                  : v \in {1, 2} }
       ELSE {ToAlt(r), Done(r)}                                          \* on the sphere / iterc = itermax or decrease too small
            \cup (IF ic # q.itermax THEN {[r EXCEPT !.bz = FALSE],           \* another CG iteration
                                          [r EXCEPT !.bz = TRUE, !.gz = TRUE]}   \* ... with beta = gredsq/ggsav exactly 0: reduced gradient is zero
                                    ELSE {})

CGSucc(s) ==
  LET F == Free(s)
      p == [s EXCEPT !.passes = @ + 1]
      q == [p EXCEPT !.itermax = IF s.bz THEN s.iterc + s.n - s.nact ELSE @]
      early == {Done(p)}                                                  \* stepsq = 0 (before itermax is set)
      exits == {Done(q)} \cup (IF s.iterc > 0 THEN {ToAlt(q)} ELSE {})   \* small gradient / step; resid <= 0 needs d # 0
      steps == UNION { StepSucc(q, hit, pos) : hit \in F \cup {0}, pos \in BOOLEAN }
      nozero == UNION { StepSucc(q, hit, TRUE) : hit \in F \cup {0} }
  IN IF F = {} \/ s.gz THEN early                                          \* no free variable / zero reduced gradient: stepsq = 0
     ELSE early \cup exits \cup { t \in steps : t \in nozero \/ NFixed(t) > NFixed(s) }   \* stplen = 0 only when a bound is met

(* ---- alternative iteration: outer pass (label 100) and inner pass (label 120) ---- *)
AltSucc(s) ==
  LET p == [s EXCEPT !.outer = @ + 1]
  IN IF s.nact >= s.n - 1 THEN {Done(p)} ELSE {[p EXCEPT !.pc = "altin", !.inner = 0]}

AltInSucc(s, cap) ==
  LET F == Free(s)
      p == [s EXCEPT !.inner = @ + 1]
  IN IF F = {} THEN {Done(p)}                                             \* temp = 0 <= 1e-4 qred^2: forced
     ELSE {Done(p)}
          \cup {[p EXCEPT !.pc = "alt", !.xb[i] = v, !.nact = @ + 1] : i \in F, v \in {1, 2}}
          \cup (IF s.inner + 1 < cap THEN {p} ELSE {})

Succ(s, cap) ==
  CASE s.pc = "cg" -> CGSucc(s)
    [] s.pc = "alt" -> AltSucc(s)
    [] s.pc = "altin" -> AltInSucc(s, cap)
    [] OTHER -> {}

Init == st \in {InitRec(N, x) : x \in [Idx(N) -> 0..2]}
Next == st' \in Succ(st, MaxInner)
Spec == Init /\ [][Next]_st /\ WF_st(Next)

(* ---------------------------------------------- invariants (on any record) ---------------------------------------------- *)
NactCount(s) == s.nact + (IF NactFromInit THEN 0 ELSE s.fix0) = NFixed(s)
IterBound(s) == (s.pc = "cg" /\ ~s.bz) => s.iterc < s.itermax
ItercBound(s) == s.iterc <= (s.rst + 1) * s.n
\* every CG pass either performs a step or fixes a variable, and a run of steps between two restarts is at most n long:
\* the code's own cap of 100 n^2 passes is never what ends the loop
CGPassBound(s) == s.passes <= (s.n - s.fix0 + 1) * (s.n + 1)
RestartBound(s) == s.rst <= s.n - s.fix0
OuterBound(s) == s.outer <= s.n - s.fix0 + 1
AllInv(s) == NactCount(s) /\ IterBound(s) /\ ItercBound(s) /\ CGPassBound(s) /\ RestartBound(s) /\ OuterBound(s)

Inv_NactCount == NactCount(st)
Inv_IterBound == IterBound(st)
Inv_ItercBound == ItercBound(st)
Inv_CGPassBound == CGPassBound(st)
Inv_RestartBound == RestartBound(st)
Inv_OuterBound == OuterBound(st)

\* a fixed variable stays fixed at the same bound; the phase order is cg -> alt/altin -> done
Mono(s, t) == /\ \A i \in Idx(s.n) : s.xb[i] # 0 => t.xb[i] = s.xb[i]
              /\ t.n = s.n /\ t.fix0 = s.fix0
              /\ (s.pc # "cg" => t.pc # "cg")
              /\ (s.pc = "done" => t = s)
MonoProp == [][Mono(st, st')]_st
Terminates == <>(st.pc = "done")

\* the Fortran's return test is only meaningful with its own counting: with it, reaching the inner loop means two free variables
AltNeedsTwoFree == (st.pc = "altin") => Cardinality(Free(st)) >= 2

\* emit the reachable abstract transitions (coverage denominator for the trace binding): label = outcome kind
Kind(s, t) == <<s.pc, t.pc, NFixed(t) - NFixed(s), t.iterc - s.iterc, IF t.pc = "cg" THEN t.bz ELSE FALSE>>
=============================================================================================================
