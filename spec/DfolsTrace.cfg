SPECIFICATION Spec
CONSTANTS
  Prop = "ALL"
  DefNaNCompare = FALSE
  DefSwapNs = FALSE
INVARIANT Report
INVARIANT CountersInv
CHECK_DEADLOCK FALSE
