SPECIFICATION Spec
CONSTANTS
  Prop = "ALL"
  DefNaNCompare = FALSE
  DefSwapNs = FALSE
  DefStaleFactor = FALSE
INVARIANT Report
CHECK_DEADLOCK FALSE
