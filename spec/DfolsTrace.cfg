SPECIFICATION Spec
CONSTANTS
  Prop = "ALL"
  DefNaNCompare = FALSE
  DefSwapNs = FALSE
INVARIANT Report
CHECK_DEADLOCK FALSE
