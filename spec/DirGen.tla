------------------------------------------ MODULE DirGen ------------------------------------------
(* Call contracts of the random-direction generators (util.py:103-209: random_orthog_directions_within_bounds,
   random_directions_within_bounds) over ALL active-set patterns: per coordinate the lower bound is active (lower = 0),
   the upper bound is active (upper = 0) or neither; the number of directions requested relative to n; the requested
   length relative to the room in the box.  TLC enumerates the patterns; each is concretised (several RNG seeds) and passed
   to the real generator; the contract of property C14 is evaluated on what it returns:
       count   exactly num_pts directions are returned
       inbox   lower <= d <= upper componentwise, exactly
       length  ||d|| <= delta * (1 + 1e-12)
   Block(j) names the code's construction block a returned direction comes from (orthogonal generator, with_neg_dirns):
   it is part of the verdict's site so that the known over-length block is identified precisely. *)
EXTENDS Integers, Sequences, FiniteSets, TLC, Json

CONSTANTS MaxN
VARIABLES n, act, numpts, room, gen
vars == <<n, act, numpts, room, gen>>

Init == /\ n \in 1..MaxN /\ act \in [1..n -> {"L", "U", "N"}]
        /\ numpts \in {1, n, n + 1, 2 * n, 2 * n + 2}
        /\ room \in {"tight", "wide"}          \* box sides shorter / longer than the requested length
        /\ gen \in {"orthog", "random"}
Next == UNCHANGED vars
Spec == Init /\ [][Next]_vars

NActive == Cardinality({i \in 1..n : act[i] # "N"})
NInactive == n - NActive
\* construction block of column j (1-based) of the orthogonal generator's result
Block(j) == IF gen = "random" THEN "random"
            ELSE IF j <= NInactive THEN "orthogonal"
            ELSE IF j <= n THEN "active"
            ELSE IF j <= n + NInactive THEN "negative_orthogonal"
            ELSE IF j <= 2 * n THEN "extra_active"
            ELSE "padding"
Blocks == [j \in 1..numpts |-> Block(j)]
Emit == PrintT("DIRGEN" \o ToJson([n |-> n, act |-> act, numpts |-> numpts, room |-> room, gen |-> gen, blocks |-> Blocks]))
EmitInv == Emit
TypeOK == NActive + NInactive = n
===================================================================================================
