------------------------------------------ MODULE Dfols ------------------------------------------
(* Control and bookkeeping machine of dfols.solve / solve_main / Controller (DESIGN.md Appendix A).

   One action per critical section of the code, named after it; multi-step events stay multi-step.  The numerical
   kernels are abstracted into nondeterministic choices (interpolation ok / singular, kind of step, sign of the
   predicted reduction, slot replaced, geometry verdicts); the ENVIRONMENT chooses every objective value
   (a rank 0..VMax, +Inf = VMax+1, or NaN) and how many samples the nsamples callback asks for.  The model bookkeeping
   is DfolsModel.tla - the same operators the trace specification predicts with.

   Ghost/history variables: ptval/ptns (what was really evaluated at point number j: objective of the mean, number of
   samples) - the properties refer to them.

   Def* constants: TRUE = the code as found at the pinned commit (defects F-03 .. F-14), FALSE = the repaired code that
   is now in /repo.  The registered configurations use FALSE everywhere and must be clean; harness/selftest runs the
   TRUE settings and expects TLC to exhibit each violation (the invariants are not vacuous). *)
EXTENDS Integers, Sequences, FiniteSets, TLC, DfolsModel

CONSTANTS MaxFun,            \* evaluation budget
          NPT,               \* number of interpolation points of the first run (>= 2)
          VMax,              \* objective ranks 0..VMax
          Small,             \* values <= Small are "sufficiently small" (NoSmall = never)
          MaxSamples,        \* the nsamples callback may ask for 1..MaxSamples samples
          WithInf,           \* +Inf in the value domain
          UseRestarts, SoftRestarts, MaxUnsucc, NumGeom, MoveXk, UseOldRk, IncNpt,
          RhoLevels,         \* rho takes levels RhoLevels (= rhobeg) down to rhoend
          RhoendScaleDrop,   \* 1: restarts.rhoend_scale < 1 (rhoend drops one level per restart), 0: scale = 1
          MaxRuns,           \* state constraint on the number of runs
          NdirsInit,         \* growing.ndirs_initial (0 = npt-1, i.e. a full initial set); with fewer directions the set GROWS by one point per iteration
          NewDirs,           \* growing.num_new_dirns_each_iter: while the set is growing, every iteration (and every safety step) additionally evaluates this many new
                             \* directions; the trust-region point then REPLACES a point instead of being appended (0 = the default for m >= n)
          GrowGeom,          \* growing.do_geom_steps: while the set is growing the iteration still ends with the usual ratio split (geometry check, reduction of
                             \* rho) instead of going straight on
          WithNoise,         \* noise.quit_on_noise_level: "all values within noise level" may end the run / trigger a restart at the top of an iteration
          RegSteps,          \* regression.num_extra_steps: geometry steps on the furthest points after a successful trust-region step
          RegInc,            \* regression.increase_num_extra_steps_with_restart: that many more of them per restart so far
          WithHuge,          \* TRUE: an objective value of +Inf may come from FINITE residuals whose squares overflow (|r| ~ 1e200): the fit then succeeds although
                             \* a slot holds +Inf.  FALSE: +Inf always means an infinite residual (the fit fails)
          NoisyObjective,    \* TRUE: evaluating the same point twice may give different values (C04 then claims nothing; a hard restart that re-evaluates
                             \* its start point need not see the recorded value again)
          RhoDropAny,        \* FALSE: reduce_rho drops one level at a time; TRUE: any number of levels (the real factor depends on rho/rhoend - used when real
                             \* runs, whose number of reductions per run varies, are checked against this specification: DfolsCtl.tla)
          WithAuto, WithFalseSuccess,   \* include the auto-detected-restart / false-success exits (switched off for the driven replay, which cannot script them)
          DefSoftSwap,       \* F-03 soft_restart saves (nx, nsamples) for (nsamples, eval_num)
          DefTrialLost,      \* F-04 trial point not saved on the trust-region-increase exit
          DefX0EvalNum,      \* F-05 exit at x0 reports evaluation number 0
          DefHardEvalNum,    \* F-07 hard restart labels its first point as evaluation 1
          DefDoubleNruns,    \* F-11 nruns incremented twice when the budget expires while sampling x0
          DefCtrlRhoend,     \* F-14 Controller.rhoend not rescaled at soft restarts
          DefSuccessNonFinite, \* success flag may be attached to a non-finite objective (no final guard)
          DefAutoFlagLeak    \* F-24 the internal auto-detected-restart flag is handed back when the budget forbids the restart

NoSmall == -5
Inf == VMax + 1
Vals == 0..VMax
EvalVals == Vals \cup {NaN} \cup (IF WithInf THEN {Inf} ELSE {})
IsFinite(v) == v # NaN /\ v # Inf
MinI(a, b) == IF a <= b THEN a ELSE b

VARIABLES pc, nf, nx, nruns, mdl, rho, rhoendL, rhoendC, softLSR, softLastFopt, hardLSR, best, exitInfo,
          ptval, ptns, geomLeft, addLeft, restarts, x0inherit, ret, npt, batchlog,
          reg,       \* regression extra steps in progress: [left, done, after]  (done = slots excluded: the incumbent of that moment and slots already moved;
                     \* after = where the iteration goes on once they are done: "loop" if ratio >= eta1, "trtailpos" if 0 < ratio < eta1)
          geomDone,  \* slots already moved by the geometry steps of the soft restart in progress (the code moves DISTINCT closest points)
          phaseReq   \* samples per point asked for by the nsamples callback for a whole phase (initial set; one soft restart): the code calls it once per phase
vars == <<pc, nf, nx, nruns, mdl, rho, rhoendL, rhoendC, softLSR, softLastFopt, hardLSR, best, exitInfo,
          ptval, ptns, geomLeft, addLeft, restarts, x0inherit, ret, npt, batchlog, phaseReq, geomDone, reg>>

NoExit == [flag |-> "none", msg |-> "none"]   \* exitInfo additionally records whether the run was left from the initialisation phase (no Jacobian returned then)
Exit(f, m) == [flag |-> f, msg |-> m]
NoBest == [has |-> FALSE, obj |-> 0, en |-> 0, ns |-> 0, jacen |-> <<>>, hasjac |-> FALSE]
NoModel == [slots |-> <<>>, kopt |-> 1, save |-> NoSave, jacen |-> <<>>, fc |-> FALSE, numpts |-> 0]

\* controller.py:92-99
Restartable(e) == \/ e.flag \in {"tr_increase", "linalg", "slow", "eval_error", "auto"}
                  \/ (e.flag = "success" /\ e.msg # "small")

\* growing phase (solver.py:244, 269-282): the initial set has fewer points than npt; "finished growing" latches once npt points are present
NdirsOfRun == IF NdirsInit = 0 THEN npt - 1 ELSE MinI(NdirsInit + nruns, npt - 1)     \* restarts.hard.increase_ndirs_initial_amt = 1 (default)
Growing == Len(mdl.slots) < mdl.numpts
RegNow == RegSteps + nruns * RegInc

Init == /\ pc = "x0eval" /\ nf = 0 /\ nx = 0 /\ nruns = 0 /\ mdl = NoModel /\ rho = RhoLevels /\ rhoendL = 0 /\ rhoendC = 0
        /\ softLSR = 0 /\ softLastFopt = 0 /\ hardLSR = 0 /\ best = NoBest /\ exitInfo = NoExit /\ ptval = <<>> /\ ptns = <<>>
        /\ geomLeft = 0 /\ addLeft = 0 /\ restarts = 0 /\ x0inherit = FALSE /\ ret = NoBest /\ npt = NPT /\ batchlog = <<>> /\ phaseReq = 1 /\ geomDone = {} /\ reg = [left |-> 0, done |-> {}, after |-> "loop", grow |-> 0]

\* ------------------------------------------------------------------ evaluate_objective (controller.py:625-659)
\* One batch: req samples requested; ran = min(req, MaxFun - nf) are run.  v1 = objective of the first sample,
\* v = objective of the mean of the samples run (= v1 when ran = 1); both chosen by the environment.
Ran(req) == MinI(req, MaxFun - nf)
BatchExit(req, v) == IF Ran(req) = 0 THEN Exit("maxfun", "maxfun")
                     ELSE IF Leq(v, Small) THEN Exit("success", "small")       \* overrides MAXFUN
                     ELSE IF Ran(req) < req THEN Exit("maxfun", "maxfun") ELSE NoExit
Counted(req, v1, v) ==
  /\ nf' = nf + Ran(req)
  /\ nx' = IF Ran(req) > 0 THEN nx + 1 ELSE nx
  /\ ptval' = IF Ran(req) > 0 THEN Append(ptval, v) ELSE ptval
  /\ ptns' = IF Ran(req) > 0 THEN Append(ptns, Ran(req)) ELSE ptns
  /\ batchlog' = Append(batchlog, [req |-> req, ran |-> Ran(req), nfafter |-> nf + Ran(req), v1 |-> v1, v |-> v])
\* the mean of samples containing NaN is NaN; containing +Inf it is +Inf or NaN
MeanOK(v1, v) == (IsNaN(v1) => IsNaN(v)) /\ (v1 = Inf => v \in {Inf, NaN})
\* put the batch into slot k: change_point with the first sample, then add_new_sample (ran-1 times, abstracted to one)
IntoSlot(m, k, v1, v, ran, en) == IF ran >= 2 THEN AddSampleN(ChangePointM(m, k, v1, en), k, v, ran) ELSE ChangePointM(m, k, v1, en)

RunExit(e) == /\ exitInfo' = [flag |-> e.flag, msg |-> e.msg, init |-> (pc = "init")] /\ pc' = "runend" /\ nruns' = nruns + 1
RestartOrExit(e) == IF Restartable(e) /\ UseRestarts /\ SoftRestarts
                    THEN pc' = "softadmit" /\ UNCHANGED <<exitInfo, nruns>>
                    ELSE RunExit(e)
NoEval == UNCHANGED <<nf, nx, ptval, ptns, batchlog>>
Radii == <<rho, rhoendL, rhoendC>>
Hard == <<hardLSR, best, x0inherit, npt>>
Soft == <<softLSR, softLastFopt, geomLeft, addLeft, geomDone>>

\* -------------------------------------------------------------------- start of a run (solver.py:157-226)
X0Eval ==
  /\ pc = "x0eval"
  /\ IF x0inherit
     THEN \* hard restart with restarts.hard.use_old_rk: no evaluation; r0, nsamples and the evaluation number are inherited
          /\ mdl' = InitModel(npt, IF DefHardEvalNum THEN 1 ELSE best.en, best.ns, best.obj)
          /\ NoEval /\ UNCHANGED <<exitInfo, nruns, ret>> /\ pc' = "init"
     ELSE \E req \in 1..MaxSamples : \E v \in EvalVals :
          LET ran == MinI(req, MaxFun - nf) IN       \* the first evaluation is unconditional: guarded by nf < MaxFun below
          /\ nf < MaxFun
          /\ ((best.has /\ MaxSamples = 1 /\ ~NoisyObjective) => v = best.obj)   \* deterministic objective: re-evaluating the restart point (the best point so far) returns its value
          /\ Counted(req, v, v)
          /\ LET e == IF Leq(v, Small) THEN Exit("success", "small") ELSE IF ran < req THEN Exit("maxfun", "maxfun") ELSE NoExit IN
             IF e # NoExit
             THEN /\ exitInfo' = [flag |-> e.flag, msg |-> e.msg, init |-> TRUE] /\ pc' = "runend"
                  /\ nruns' = nruns + (IF DefDoubleNruns /\ ran < req THEN 2 ELSE 1)
                  /\ ret' = [has |-> TRUE, obj |-> v, en |-> IF DefX0EvalNum THEN 0 ELSE nx + 1, ns |-> ran, jacen |-> <<>>, hasjac |-> FALSE]
                  /\ mdl' = NoModel
             ELSE /\ mdl' = InitModel(npt, IF DefHardEvalNum THEN 1 ELSE nx + 1, ran, v)
                  /\ pc' = "init" /\ UNCHANGED <<exitInfo, nruns, ret>>
  /\ rho' = RhoLevels /\ rhoendC' = rhoendL /\ softLSR' = 0
  /\ phaseReq' \in 1..MaxSamples
  /\ softLastFopt' = IF x0inherit THEN best.obj ELSE IF Len(ptval') > 0 THEN ptval'[Len(ptval')] ELSE 0
  /\ UNCHANGED <<rhoendL, hardLSR, best, geomLeft, addLeft, restarts, x0inherit, npt, geomDone, reg>>

\* generic: evaluate a point and either put it into slot k, or (on an exit) save it and leave
EvalIntoR(k, after, reqs) ==
  \E req \in reqs : \E v1 \in EvalVals : \E v \in EvalVals :
    /\ (Ran(req) <= 1 => v = v1) /\ MeanOK(v1, v)
    /\ Counted(req, v1, v)
    /\ LET e == BatchExit(req, v) IN
       IF e # NoExit
       THEN /\ mdl' = IF Ran(req) > 0 THEN SavePointM(mdl, v, Ran(req), nx + 1) ELSE mdl
            /\ RunExit(e)
       ELSE /\ mdl' = IntoSlot(mdl, k, v1, v, Ran(req), nx + 1)
            /\ pc' = after /\ UNCHANGED <<exitInfo, nruns>>

EvalInto(k, after) == EvalIntoR(k, after, 1..MaxSamples)

\* initialise_coordinate_directions (controller.py:288-352): one point per step
InitPoint ==
  /\ pc = "init"
  /\ IF Len(mdl.slots) >= NdirsOfRun + 1
     THEN pc' = "loop" /\ NoEval /\ UNCHANGED <<mdl, exitInfo, nruns>>
     ELSE EvalIntoR(Len(mdl.slots) + 1, "init", {phaseReq})
  /\ UNCHANGED <<ret, restarts, phaseReq, reg>> /\ UNCHANGED Radii /\ UNCHANGED Hard /\ UNCHANGED Soft

\* ------------------------------------------------------------------------ main loop (solver.py:263-933)
\* Interpolate (solver.py:305-332): forced to fail when a slot holds a non-finite value; may fail otherwise (singular)
Interpolate ==
  /\ pc = "loop"
  /\ \/ /\ mdl' = InterpM(mdl, FALSE) /\ RestartOrExit(Exit("linalg", "interp"))
     \/ /\ ~HasNonFinite(mdl) /\ ((WithInf /\ ~WithHuge) => \A k \in 1..Len(mdl.slots) : mdl.slots[k].obj # Inf)
        /\ mdl' = InterpM(mdl, TRUE) /\ pc' \in {"safety", "tr"} /\ UNCHANGED <<exitInfo, nruns>>
  /\ NoEval /\ UNCHANGED <<ret, restarts, phaseReq, reg>> /\ UNCHANGED Radii /\ UNCHANGED Hard /\ UNCHANGED Soft

\* Noise-level exit check at the top of an iteration (solver.py:284-303): a verdict of the numerical test all_values_within_noise_level
NoiseExit ==
  /\ pc = "loop" /\ WithNoise /\ ~Growing
  /\ RestartOrExit(Exit("success", "noise"))
  /\ NoEval /\ UNCHANGED <<mdl, ret, restarts, phaseReq, reg>> /\ UNCHANGED Radii /\ UNCHANGED Hard /\ UNCHANGED Soft

\* reduce_rho (controller.py:719-733) on levels: rho drops one level, or to the controller's rhoend when close
ReduceRho == IF RhoDropAny THEN rho' \in {r \in rhoendC..(rho - 1) : TRUE} /\ rho > rhoendC
             ELSE rho' = IF rho - rhoendC <= 1 THEN rhoendC ELSE rho - 1

\* Safety step (solver.py:443-532)
Safety ==
  /\ pc = "safety"
  /\ \/ \* while growing (solver.py:366-442): a new direction is evaluated and APPENDED; nothing else happens in a safety step
        \* (with growing.num_new_dirns_each_iter = d > 1, d directions: the remaining d - 1 in GrowAdd)
        /\ Growing /\ EvalInto(Len(mdl.slots) + 1, IF NewDirs <= 1 THEN "loop" ELSE "growadd") /\ UNCHANGED Radii
     \/ \* not done with rho and a far point exists: geometry step on it
        /\ ~Growing /\ \E k \in 1..Len(mdl.slots) : k # mdl.kopt /\ EvalInto(k, "loop")
        /\ UNCHANGED Radii
     \/ \* geometry step failed in the kernel (singular)
        /\ ~Growing /\ RestartOrExit(Exit("linalg", "geom")) /\ NoEval /\ UNCHANGED mdl /\ UNCHANGED Radii
     \/ \* reduce rho
        /\ ~Growing /\ rho > rhoendL /\ ReduceRho /\ pc' = "loop" /\ NoEval /\ UNCHANGED <<mdl, exitInfo, nruns, rhoendL, rhoendC>>
     \/ \* rho = rhoend: soft restart, or evaluate xnew as a final check and stop
        /\ ~Growing /\ ~(rho > rhoendL) /\ UNCHANGED Radii
        /\ IF UseRestarts /\ SoftRestarts
           THEN pc' = "softadmit" /\ NoEval /\ UNCHANGED <<mdl, exitInfo, nruns>>
           ELSE \E req \in 1..MaxSamples : \E v \in EvalVals :
                /\ Counted(req, v, v)
                /\ mdl' = IF Ran(req) > 0 THEN SavePointM(mdl, v, Ran(req), nx + 1) ELSE mdl
                /\ RunExit(IF BatchExit(req, v) # NoExit THEN BatchExit(req, v) ELSE Exit("success", "rhoend"))
  /\ reg' = IF pc' = "growadd" THEN [reg EXCEPT !.grow = NewDirs - 1, !.after = "loop"] ELSE reg
  /\ UNCHANGED <<ret, restarts, phaseReq>> /\ UNCHANGED Hard /\ UNCHANGED Soft

\* Trust-region step (solver.py:533-700)
TRStep ==
  /\ pc = "tr"
  /\ \/ \* choose_point_to_replace failed
        /\ RestartOrExit(Exit("linalg", "choose")) /\ NoEval /\ UNCHANGED mdl
     \/ \E req \in 1..MaxSamples : \E v1 \in EvalVals : \E v \in EvalVals :
        /\ (Ran(req) <= 1 => v = v1) /\ MeanOK(v1, v)
        /\ Counted(req, v1, v)
        /\ LET e == BatchExit(req, v) IN
           IF Ran(req) > 0 /\ (IsNaN(v1) \/ IsNaN(v))
           THEN \* NaN in the trial evaluation: leave without saving (solver.py:595-605)
                /\ RunExit(Exit("eval_error", "nan")) /\ UNCHANGED mdl
           ELSE IF e # NoExit
           THEN /\ mdl' = IF Ran(req) > 0 THEN SavePointM(mdl, v, Ran(req), nx + 1) ELSE mdl
                /\ RunExit(e)
           ELSE \/ \* predicted reduction negative: trust-region-increase exit; trial point saved (repaired) or dropped (as found)
                   /\ mdl' = IF DefTrialLost THEN mdl ELSE SavePointM(mdl, v, Ran(req), nx + 1)
                   /\ RestartOrExit(Exit("tr_increase", "tr_increase"))
                \/ \* ratio > 0 iff the new value beats the incumbent; slot chosen by the kernel (the incumbent only when ratio > 0)
                   \E k \in 1..(Len(mdl.slots) + 1) :
                     /\ ((Growing /\ NewDirs = 0) <=> k = Len(mdl.slots) + 1)      \* while growing (full-rank interpolation) the trial point is appended, never replaces;
                                                                                     \* with new directions every iteration it replaces, and the new directions are appended
                     /\ (k = mdl.kopt => Lt(v, ObjOpt(mdl)))
                     /\ mdl' = IntoSlot(mdl, k, v1, v, Ran(req), nx + 1)
                     /\ \/ Growing /\ ~GrowGeom /\ pc' = (IF NewDirs > 0 THEN "growadd" ELSE "loop") /\ UNCHANGED <<exitInfo, nruns>>     \* growing: next iteration whatever the ratio (no geometry steps, no rho update)
                        \* growing.do_geom_steps: the new directions first (if any), then the ratio split as after the growing phase
                        \/ Growing /\ GrowGeom /\ NewDirs > 0 /\ pc' = "growadd" /\ UNCHANGED <<exitInfo, nruns>>
                        \/ Growing /\ GrowGeom /\ NewDirs = 0 /\ UNCHANGED <<exitInfo, nruns>>
                           /\ pc' \in (IF Lt(v, ObjOpt(mdl)) THEN {"loop", "trtailpos"} ELSE {"trtail"})
                        \* ratio > 0 (the value improved) and regression steps are configured: they come first, whatever the size of the ratio (solver.py:781-801)
                        \/ ~Growing /\ Lt(v, ObjOpt(mdl)) /\ RegNow > 0 /\ pc' = "regress" /\ UNCHANGED <<exitInfo, nruns>>
                        \/ ~Growing /\ Lt(v, ObjOpt(mdl)) /\ RegNow = 0 /\ pc' = "loop" /\ UNCHANGED <<exitInfo, nruns>>     \* successful step (ratio >= eta1)
                        \/ ~Growing /\ Lt(v, ObjOpt(mdl)) /\ RestartOrExit(Exit("slow", "slow"))
                        \/ WithFalseSuccess /\ ~Growing /\ Lt(v, ObjOpt(mdl)) /\ mdl.save.has /\ Lt(mdl.save.obj, v) /\ RunExit(Exit("false_success", "false_success"))
                        \* ratio < eta1 (includes small positive ratios: the value improved, the step still counts as unsuccessful)
                        \/ ~Growing /\ ~Lt(v, ObjOpt(mdl)) /\ pc' = "trtail" /\ UNCHANGED <<exitInfo, nruns>>
                        \/ ~Growing /\ Lt(v, ObjOpt(mdl)) /\ RegNow = 0 /\ pc' = "trtailpos" /\ UNCHANGED <<exitInfo, nruns>>
  \* entering the regression phase: the furthest-point list is computed once, from the incumbent AFTER the update; one sample request for the phase
  /\ IF pc' = "regress" THEN \E a \in {"loop", "trtailpos"} : reg' = [left |-> MinI(RegNow, Len(mdl'.slots) - 1), done |-> {mdl'.kopt}, after |-> a, grow |-> 0]
     ELSE IF pc' = "growadd"
          THEN \E a \in (IF ~GrowGeom THEN {"loop"} ELSE IF Lt(ObjOpt(mdl'), ObjOpt(mdl)) THEN {"loop", "trtailpos"} ELSE {"trtail"}) :
                  reg' = [reg EXCEPT !.grow = NewDirs, !.after = a]
          ELSE reg' = reg
  /\ phaseReq' \in (IF pc' = "regress" THEN 1..MaxSamples ELSE {phaseReq})
  /\ UNCHANGED <<ret, restarts>> /\ UNCHANGED Radii /\ UNCHANGED Hard /\ UNCHANGED Soft

\* new directions while growing (controller.py:418-457, called from solver.py:427 and 751-775): each is evaluated and appended while the set is
\* incomplete; once it is complete the remaining ones replace a point chosen like a trust-region point
GrowAdd ==
  /\ pc = "growadd"
  /\ IF reg.grow = 0
     THEN pc' = reg.after /\ NoEval /\ UNCHANGED <<mdl, exitInfo, nruns, reg>>
     ELSE /\ \/ Growing /\ EvalInto(Len(mdl.slots) + 1, "growadd")
             \/ ~Growing /\ \E k \in 1..Len(mdl.slots) : k # mdl.kopt /\ EvalInto(k, "growadd")
             \/ ~Growing /\ RestartOrExit(Exit("linalg", "choose")) /\ NoEval /\ UNCHANGED mdl
          /\ reg' = [reg EXCEPT !.grow = reg.grow - 1]
  /\ UNCHANGED <<ret, restarts, phaseReq>> /\ UNCHANGED Radii /\ UNCHANGED Hard /\ UNCHANGED Soft

\* regression: move the furthest points by geometry steps (solver.py:769-801, controller.py:871-888)
Regress ==
  /\ pc = "regress"
  /\ IF reg.left = 0
     THEN pc' = reg.after /\ NoEval /\ UNCHANGED <<mdl, exitInfo, nruns, reg>>
     ELSE \/ \E k \in (1..Len(mdl.slots)) \ reg.done :
               /\ EvalIntoR(k, "regress", {phaseReq})
               /\ reg' = [reg EXCEPT !.left = reg.left - 1, !.done = reg.done \cup {k}]
          \/ RestartOrExit(Exit("linalg", "geom")) /\ NoEval /\ UNCHANGED <<mdl, reg>>
  /\ UNCHANGED <<ret, restarts, phaseReq>> /\ UNCHANGED Radii /\ UNCHANGED Hard /\ UNCHANGED Soft

\* after an unsuccessful step: geometry / reduce rho / stop (solver.py:858-931)
\* pc = "trtail": ratio <= 0;  pc = "trtailpos": 0 < ratio < eta1 - the value improved, so after the geometry check the iteration simply goes on
\* (solver.py:905-907): no reduction of rho, no rho = rhoend exit from here
TRTail ==
  /\ pc \in {"trtail", "trtailpos"}
  /\ \/ (\E k \in 1..Len(mdl.slots) : k # mdl.kopt /\ EvalInto(k, "loop")) /\ UNCHANGED Radii
     \/ RestartOrExit(Exit("linalg", "geom")) /\ NoEval /\ UNCHANGED mdl /\ UNCHANGED Radii
     \/ WithAuto /\ UseRestarts /\ RestartOrExit(Exit("auto", "auto")) /\ NoEval /\ UNCHANGED mdl /\ UNCHANGED Radii
     \/ pc' = "loop" /\ NoEval /\ UNCHANGED <<mdl, exitInfo, nruns>> /\ UNCHANGED Radii
     \/ pc = "trtail" /\ rho > rhoendL /\ ReduceRho /\ pc' = "loop" /\ NoEval /\ UNCHANGED <<mdl, exitInfo, nruns, rhoendL, rhoendC>>
     \/ /\ pc = "trtail" /\ ~(rho > rhoendL) /\ NoEval /\ UNCHANGED mdl /\ UNCHANGED Radii
        /\ IF UseRestarts /\ SoftRestarts THEN pc' = "softadmit" /\ UNCHANGED <<exitInfo, nruns>>
           ELSE RunExit(Exit("success", "rhoend"))
  /\ UNCHANGED <<ret, restarts, phaseReq, reg>> /\ UNCHANGED Hard /\ UNCHANGED Soft

\* ------------------------------------------------------------------ soft restart (controller.py:782-869)
SoftAdmit ==
  /\ pc = "softadmit"
  /\ LET lsr == IF Lt(ObjOpt(mdl), softLastFopt) THEN nruns ELSE softLSR
         ok == (nruns - lsr < MaxUnsucc) /\ nf < MaxFun
         inc == mdl.slots[mdl.kopt]
     IN /\ softLSR' = lsr /\ softLastFopt' = ObjOpt(mdl)
        /\ IF ~ok
           THEN /\ RunExit(IF nruns - lsr >= MaxUnsucc THEN Exit("success", "max_unsucc") ELSE Exit("maxfun", "maxfun"))
                /\ UNCHANGED <<mdl, rho, geomLeft, addLeft>>
           ELSE /\ mdl' = IF DefSoftSwap THEN SavePointM(mdl, inc.obj, nx, inc.ns) ELSE SavePointM(mdl, inc.obj, inc.ns, inc.en)
                /\ rho' = RhoLevels
                /\ geomLeft' = MinI(NumGeom, IF MoveXk THEN Len(mdl.slots) ELSE Len(mdl.slots) - 1)
                /\ addLeft' = IF IncNpt > 0 /\ Len(mdl.slots) < NPT + IncNpt THEN 1 ELSE 0
                /\ pc' = "softgeom" /\ UNCHANGED <<exitInfo, nruns>>
  /\ phaseReq' \in 1..MaxSamples
  /\ geomDone' = IF MoveXk THEN {} ELSE {mdl.kopt}     \* without move_xk the incumbent of this moment is excluded from the closest-point list
  /\ NoEval /\ UNCHANGED <<rhoendL, rhoendC, ret, restarts, reg>> /\ UNCHANGED Hard

SoftDone == /\ pc' = "loop" /\ nruns' = nruns + 1 /\ restarts' = restarts + 1
            /\ rhoendL' = rhoendL - RhoendScaleDrop
            /\ rhoendC' = IF DefCtrlRhoend THEN rhoendC ELSE rhoendC - RhoendScaleDrop

SoftGeom ==
  /\ pc = "softgeom"
  /\ IF geomLeft > 0
     THEN /\ \/ \E k \in (1..Len(mdl.slots)) \ geomDone :
                  /\ (MoveXk /\ geomDone = {} => k = mdl.kopt)   \* the incumbent is its own closest point
                  /\ EvalIntoR(k, "softgeom", {phaseReq})
                  /\ geomDone' = geomDone \cup {k}
             \/ \* the geometry step fails in the kernel (singular Lagrange system): the run ends there (controller.py:831-834)
                /\ RunExit(Exit("linalg", "geom")) /\ NoEval /\ UNCHANGED <<mdl, geomDone>>
          /\ geomLeft' = geomLeft - 1 /\ UNCHANGED <<addLeft, restarts, rhoendL, rhoendC>>
     ELSE IF addLeft > 0
     THEN \* restarts.increase_npt: evaluate and append a new point (add_new_point)
          /\ \E req \in {phaseReq} : \E v1 \in EvalVals : \E v \in EvalVals :
               /\ (Ran(req) <= 1 => v = v1) /\ MeanOK(v1, v)
               /\ Counted(req, v1, v)
               /\ LET e == BatchExit(req, v) IN
                  IF e # NoExit
                  THEN /\ mdl' = IF Ran(req) > 0 THEN SavePointM(mdl, v, Ran(req), nx + 1) ELSE mdl
                       /\ RunExit(e)
                  ELSE /\ mdl' = (IF Ran(req) >= 2 THEN AddSampleN(AddPointM(mdl, v1, nx + 1), Len(mdl.slots) + 1, v, Ran(req)) ELSE AddPointM(mdl, v1, nx + 1))
                       /\ UNCHANGED <<pc, exitInfo, nruns>>
          /\ addLeft' = addLeft - 1 /\ UNCHANGED <<geomLeft, restarts, rhoendL, rhoendC, geomDone>>
     ELSE /\ SoftDone /\ NoEval /\ UNCHANGED <<mdl, exitInfo, geomLeft, addLeft, geomDone>>
  /\ UNCHANGED <<rho, softLSR, softLastFopt, ret, phaseReq, reg>> /\ UNCHANGED Hard

\* ------------------------------------------------ end of a run, hard-restart loop, merge, packaging (solver.py:935-940, 1120-1173)
RunEnd ==
  /\ pc = "runend"
  /\ LET f == IF Len(mdl.slots) = 0 THEN ret ELSE FinalM(mdl) @@ [has |-> TRUE, hasjac |-> ~exitInfo.init]
         better == ~best.has \/ Lt(f.obj, best.obj) \/ IsNaN(best.obj)
         nbest == IF ~best.has THEN f
                  ELSE IF better THEN [f EXCEPT !.jacen = IF f.hasjac THEN f.jacen ELSE best.jacen, !.hasjac = f.hasjac \/ best.hasjac]
                  ELSE best
         hls == IF ~best.has \/ better THEN nruns ELSE hardLSR
         again == UseRestarts /\ ~SoftRestarts /\ nf < MaxFun /\ Restartable(exitInfo) /\ nruns - hls < MaxUnsucc
     IN /\ best' = nbest /\ hardLSR' = hls
        /\ IF again
           THEN /\ pc' = "x0eval" /\ x0inherit' = UseOldRk /\ restarts' = restarts + 1 /\ rhoendL' = rhoendL - RhoendScaleDrop
                /\ npt' = IF IncNpt > 0 THEN MinI(npt + 1, NPT + IncNpt) ELSE npt
                /\ UNCHANGED exitInfo
           ELSE /\ pc' = "done" /\ UNCHANGED <<x0inherit, restarts, rhoendL, npt>>
                /\ exitInfo' = LET e0 == IF ~DefAutoFlagLeak /\ exitInfo.flag = "auto" THEN Exit("maxfun", "maxfun") ELSE Exit(exitInfo.flag, exitInfo.msg)
                                   e1 == IF nruns - hls >= MaxUnsucc THEN Exit("success", "max_unsucc") ELSE e0
                               IN IF ~DefSuccessNonFinite /\ e1.flag = "success" /\ ~IsFinite(nbest.obj) THEN Exit("eval_error", "nonfinite") ELSE e1
  /\ mdl' = NoModel /\ ret' = NoBest
  /\ NoEval /\ UNCHANGED <<nruns, rho, rhoendC, softLSR, softLastFopt, geomLeft, addLeft, phaseReq, geomDone, reg>>

Done == pc = "done" /\ UNCHANGED vars

Next == X0Eval \/ InitPoint \/ NoiseExit \/ Interpolate \/ Safety \/ TRStep \/ GrowAdd \/ Regress \/ TRTail \/ SoftAdmit \/ SoftGeom \/ RunEnd \/ Done
Spec == Init /\ [][Next]_vars
FairSpec == Spec /\ WF_vars(Next)
RunsBound == nruns <= MaxRuns

\* ============================================================================= properties (Appendix B)
Pts == 1..Len(ptval)
\* --- C02
C02_Budget == nf <= MaxFun
C02_Counters == nx = Len(ptval) /\ nx <= nf /\ (MaxSamples = 1 => nx = nf)
C02_NfIsSum == LET S[i \in 0..Len(ptns)] == IF i = 0 THEN 0 ELSE S[i - 1] + ptns[i] IN nf = S[Len(ptns)]
C02_Samples == \A i \in 1..Len(batchlog) : batchlog[i].ran = batchlog[i].req \/ batchlog[i].nfafter = MaxFun
C02_Monotone == [][nf' >= nf /\ nx' >= nx]_<<nf, nx>>
\* --- C03: every stored slot (and the saved slot) designates the evaluation it names; so does the result
Designates(s) == s.en \in Pts /\ ptval[s.en] = s.obj /\ ptns[s.en] = s.ns
C03_EveryIter == /\ \A k \in 1..Len(mdl.slots) : Designates(mdl.slots[k])
                 /\ (mdl.save.has => Designates(mdl.save))
C03_Returned == (pc = "done" /\ best.has) => Designates(best)
\* --- C04 (deterministic objective, one sample): the best value ever evaluated is never lost
C04_BestKept == (pc = "done" /\ MaxSamples = 1 /\ ~NoisyObjective) => \A i \in Pts : ~IsNaN(ptval[i]) => Leq(best.obj, ptval[i])
C04_EveryIter == (pc = "loop" /\ MaxSamples = 1 /\ ~NoisyObjective) =>
                   LET inc == ObjOpt(mdl)
                       have == IF mdl.save.has /\ (Lt(mdl.save.obj, inc) \/ IsNaN(inc)) THEN mdl.save.obj ELSE inc
                   IN \A i \in Pts : ~IsNaN(ptval[i]) => Leq(have, ptval[i])
C04_Monotone == [][(best.has /\ ~IsNaN(best.obj)) => Leq(best'.obj, best.obj)]_best
\* --- C08
C08_FiniteRetained == pc = "done" => ((\E i \in Pts : IsFinite(ptval[i]) /\ \A j \in 1..i : IsFinite(ptval[j])) => IsFinite(best.obj))
\* --- C10
C10_SmallTruth == (pc = "done" /\ exitInfo.msg = "small") => Leq(best.obj, Small)
C10_RhoendTruth == (pc = "done" /\ exitInfo.msg = "rhoend") => rho = rhoendL
C10_MaxfunTruth == (pc = "done" /\ exitInfo.flag = "maxfun") => nf = MaxFun
C10_UnsuccTruth == (pc = "done" /\ exitInfo.msg = "max_unsucc") => nruns >= MaxUnsucc
C10_Nruns == pc = "done" => nruns = restarts + 1
C10_SuccessFinite == (pc = "done" /\ exitInfo.flag = "success") => IsFinite(best.obj)
\* --- C07: the flag handed back is a documented exit code (the auto-detected-restart flag is internal to the restart machinery)
C07_DocumentedFlag == pc = "done" => exitInfo.flag # "auto"
\* --- C11: the evaluation numbers returned with the Jacobian are a snapshot of slot contents: each names an evaluated point
C11_JacNames == (pc = "done" /\ best.hasjac) => \A i \in 1..Len(best.jacen) : best.jacen[i] = 0 \/ best.jacen[i] \in Pts
C11_Snapshot == \A i \in 1..Len(mdl.jacen) : mdl.jacen[i] = 0 \/ mdl.jacen[i] \in Pts
\* --- C18 (levels)
C18_Radii == pc \in {"loop", "safety", "tr", "trtail", "trtailpos", "regress", "growadd"} => (rho <= RhoLevels /\ rho >= rhoendL)
\* --- termination (precondition of everything; fails as found: F-14)
Termination == <>(pc = "done")
TypeOK == /\ nf \in 0..(MaxFun + MaxSamples) /\ nx \in 0..(MaxFun + 1) /\ mdl.kopt \in 1..(NPT + IncNpt + 1)
==================================================================================================
