------------------------------------------- MODULE Radii -------------------------------------------
(* Controller.reduce_rho (controller.py:720-734) as exact arithmetic, for every class of rho/rhoend and of the two factors (C18).

   Units: rhoend = U = 4096 units; rho = q8 * U / 8 for a ratio rho/rhoend = q8/8 taken from the classes below (just above 1, below 2, the branch
   boundaries 16 and 250 bracketed by perfect squares so that the geometric-mean branch is exact, far above); tr_radius.alpha1 = a1/1024 and
   tr_radius.alpha2 = a2/1024 (both documented as any value in (0, 1); alpha2 < alpha1 is legal).  All quantities are dyadic rationals, exact in
   binary64, so the replay (harness/c18.py) calls the REAL method on a stub object and demands bit-identical rho and delta.

        ratio <= 16          new rho = rhoend
        16 < ratio <= 250    new rho = sqrt(ratio) * rhoend
        ratio > 250          new rho = alpha1 * rho            (as found)   |   max(alpha1 * rho, rhoend)   (repaired: F-35)
        delta               = max(alpha2 * rho, new rho)

   Invariants (the radius clauses of C18 at the moment rho is reduced): the new rho is below the old one, not below rhoend, positive, and the new
   delta is not below the new rho.  As found, RhoNotBelowRhoend fails for alpha1 < 1/250 (TLC's counterexample: ratio 251, alpha1 = 1/1024). *)
EXTENDS Integers, Sequences, FiniteSets, TLC, Json

CONSTANTS DefRhoBelowRhoend      \* TRUE: the code as found (alpha1 * rho can fall below rhoend); FALSE: repaired

U == 4096
Ratios8 == {9, 12, 15, 16, 32, 128, 200, 512, 800, 1800, 2048, 2056, 4096, 8192, 32768}      \* ratio = q8 / 8: 1.125 1.5 1.875 2 4 16 | 25 64 100 225 | 256 257 512 1024 4096
Alpha1s == {1, 4, 128, 512, 896}            \* / 1024:  ~1e-3, ~4e-3 (just below 1/250), 1/8, 1/2, 7/8
Alpha2s == {64, 256, 512, 896}              \* / 1024:  1/16, 1/4, 1/2 (default), 7/8
Sqrt(q8) == CASE q8 = 200 -> 5 [] q8 = 512 -> 8 [] q8 = 800 -> 10 [] q8 = 1800 -> 15 [] OTHER -> 0

VARIABLES q8, a1, a2
vars == <<q8, a1, a2>>
Init == q8 \in Ratios8 /\ a1 \in Alpha1s /\ a2 \in Alpha2s
Next == UNCHANGED vars
Spec == Init /\ [][Next]_vars

MaxI(a, b) == IF a >= b THEN a ELSE b
Rho == q8 * (U \div 8)
\* every product below is an integer number of units for the classes above (checked by Integral)
\* (a/1024) * (q8 * U/8) = a * q8 / 2 units   (U/8 = 512; kept small: TLC integers are 32-bit)
Alpha1Rho == (a1 * q8) \div 2
Alpha2Rho == (a2 * q8) \div 2
Integral == (q8 > 2000 => (a1 * q8) % 2 = 0) /\ (a2 * q8) % 2 = 0
NewRho == IF q8 <= 128 THEN U
          ELSE IF q8 <= 2000 THEN Sqrt(q8) * U
          ELSE IF DefRhoBelowRhoend THEN Alpha1Rho ELSE MaxI(Alpha1Rho, U)
NewDelta == MaxI(Alpha2Rho, NewRho)

TypeOK == Integral /\ (q8 > 128 /\ q8 <= 2000 => Sqrt(q8) > 0)
RhoDecreases == NewRho < Rho
RhoNotBelowRhoend == NewRho >= U
RhoPositive == NewRho > 0
DeltaNotBelowRho == NewDelta >= NewRho

Emit == PrintT("RADII" \o ToJson([q8 |-> q8, a1 |-> a1, a2 |-> a2, rho |-> Rho, newrho |-> NewRho, newdelta |-> NewDelta]))
EmitInv == Emit
====================================================================================================
