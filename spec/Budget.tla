------------------------------------------- MODULE Budget -------------------------------------------
(* Counter-only projection of EVERY evaluating site of dfols (property C02), for UNBOUNDED maxfun and unbounded sample requests.

   Sites and their image here (the refinement link to Dfols.tla / the code):
     solve_main, first evaluation at x0 (solver.py:157-166)       X0First   - UNCONDITIONAL: no budget test precedes it
     solve_main, further samples at x0  (solver.py:176-188)       X0More    - tests nf >= maxfun before each sample
     Controller.evaluate_objective      (controller.py:625-659)   Begin / Sample - tests nf >= maxfun before each sample; nx once per batch
       (every other site - initial directions, trial step, geometry steps, final check, soft-restart geometry steps and added
        points, momentum / regression steps, growing directions - evaluates only through evaluate_objective)
     hard-restart loop (solver.py:1122)                           Restart   - re-enters solve_main only if nf < maxfun
   Because X0First is unconditional, nf <= maxfun is NOT inductive on its own: it needs "a run is only ever started with budget
   left".  IndInv below states that; Apalache discharges   Init => IndInv   and   IndInv /\ Next => IndInv'   for all MaxFun >= 1 and
   all request sizes (harness/c02.py runs both obligations; TLC checks the same invariants for small constants).

   Type annotations are for Apalache. *)
EXTENDS Integers

CONSTANT
  \* @type: Int;
  MaxFun

VARIABLES
  \* @type: Str;
  pc,
  \* @type: Int;
  nf,
  \* @type: Int;
  nx,
  \* @type: Int;
  req,
  \* @type: Int;
  done,
  \* @type: Bool;
  incnx

ConstInit == MaxFun \in Nat /\ MaxFun >= 1

Init == pc = "x0first" /\ nf = 0 /\ nx = 0 /\ req = 0 /\ done = 0 /\ incnx = FALSE

\* the first evaluation of a run: no guard
X0First == /\ pc = "x0first"
           /\ nf' = nf + 1 /\ nx' = nx + 1
           /\ \E r \in Nat : r >= 1 /\ req' = r
           /\ done' = 1 /\ pc' = "x0more" /\ incnx' = TRUE
X0More == /\ pc = "x0more"
          /\ IF done >= req THEN pc' = "idle" /\ UNCHANGED <<nf, nx, req, done, incnx>>
             ELSE IF nf >= MaxFun THEN pc' = "exit" /\ UNCHANGED <<nf, nx, req, done, incnx>>
             ELSE nf' = nf + 1 /\ done' = done + 1 /\ UNCHANGED <<nx, req, pc, incnx>>
Begin == /\ pc = "idle"
         /\ \E r \in Nat : r >= 1 /\ req' = r
         /\ done' = 0 /\ incnx' = FALSE /\ pc' = "sampling" /\ UNCHANGED <<nf, nx>>
Sample == /\ pc = "sampling"
          /\ IF done >= req THEN pc' = "idle" /\ UNCHANGED <<nf, nx, req, done, incnx>>
             ELSE IF nf >= MaxFun THEN pc' = "exit" /\ UNCHANGED <<nf, nx, req, done, incnx>>
             ELSE /\ nf' = nf + 1 /\ done' = done + 1
                  /\ nx' = (IF incnx THEN nx ELSE nx + 1) /\ incnx' = TRUE /\ UNCHANGED <<req, pc>>
\* a run may end at any time (idle) or by budget (exit); a new run starts only with budget left
Restart == /\ pc \in {"idle", "exit"} /\ nf < MaxFun
           /\ pc' = "x0first" /\ UNCHANGED <<nf, nx, req, done, incnx>>
Next == X0First \/ X0More \/ Begin \/ Sample \/ Restart

Budget == nf <= MaxFun
Points == nx <= nf
TypeOK == /\ pc \in {"x0first", "x0more", "idle", "sampling", "exit"}
          /\ nf \in Nat /\ nx \in Nat /\ req \in Nat /\ done \in Nat /\ incnx \in BOOLEAN
IndInv == /\ TypeOK /\ Budget /\ Points
          /\ (pc = "x0first" => nf < MaxFun)
          /\ ((pc = "sampling" /\ ~incnx) => done = 0)
Spec == Init /\ [][Next]_<<pc, nf, nx, req, done, incnx>>
=====================================================================================================
