----------------------------------------- MODULE TrsboxLinear -----------------------------------------
(* The active-set loop of dfols.trust_region.trsbox_linear (the linear subproblem behind the bound-constrained geometry step; C13).

   min g'x  s.t.  a <= x <= b, |x| <= Delta, solved by walking along -g restricted to the unconstrained directions: each pass either
   stops (no direction left; or the ball is reached before any bound) or meets ONE bound, fixes that coordinate and removes it from
   the direction.  Directions with |g_i| below the zero threshold are constrained from the start.  Kept exactly: the set of constrained
   directions and the pass counter; abstracted: which bound is met.  One action per loop pass, observed at the first statement of the
   pass on the real frame (harness/linmon.py).  Because every unconstrained direction has |dirn_i| >= the threshold, the
   "direction is zero" exit fires exactly when no direction is left - the specification says so, and the binding checks it. *)
EXTENDS Naturals, FiniteSets, TLC

CONSTANT N
VARIABLE s

InitRec(n, c) == [pc |-> "loop", n |-> n, cons |-> c, c0 |-> Cardinality(c), i |-> 0]
Done(r) == [r EXCEPT !.pc = "done"]
Succ(r) ==
  IF r.pc # "loop" THEN {}
  ELSE IF r.cons = 1..r.n THEN {Done(r)}                                  \* no direction left: the zero-direction exit, and only then
  ELSE {Done(r)}                                                          \* the ball is reached first: unconstrained solution
       \cup { [r EXCEPT !.cons = @ \cup {j}, !.i = @ + 1, !.pc = IF r.i + 1 = r.n THEN "done" ELSE "loop"] : j \in (1..r.n) \ r.cons }

Init == s \in {InitRec(N, c) : c \in SUBSET (1..N)}
Next == s' \in Succ(s)
Spec == Init /\ [][Next]_s /\ WF_s(Next)

ConsCount(r) == Cardinality(r.cons) = r.c0 + r.i
PassBound(r) == r.i <= r.n - r.c0
\* the loop's own bound of n passes is reached only when no direction was constrained at the start
Exhaustion(r) == (r.pc = "done" /\ r.i = r.n) => r.c0 = 0
Mono(r, t) == r.cons \subseteq t.cons /\ t.n = r.n /\ t.c0 = r.c0 /\ (r.pc = "done" => t = r)
Inv_ConsCount == ConsCount(s)
Inv_PassBound == PassBound(s)
Inv_Exhaustion == Exhaustion(s)
MonoProp == [][Mono(s, s')]_s
Terminates == <>(s.pc = "done")
=============================================================================================================
