------------------------------------------ MODULE DfolsCtl ------------------------------------------
(* code -> spec for the CONTROL machine: a recorded run of the real dfols.solve (real kernels, no stubs) must be a behaviour of Dfols.tla.

   The recorder's event stream is reduced (harness/ctltrace.py, a syntactic projection - no state is guessed) to a sequence of SNAPSHOTS of the
   observable part of the specification's state, one after every change of it:
        nf, nx            the solver's own counters (its log lines)
        m                 the model projection after a Model call (slots: evaluation number, sample count, objective rank; kopt; saved point; jacobian
                          snapshot; capacity) - the projection the recorder attaches to every Model event
   plus one record per end of run (flag / message class, nruns) and one for the returned result.  Everything else - the program counter, the
   radius levels, restart bookkeeping, the sample request of a phase, which disjunct of an action was taken - is NOT logged: TLC infers it, i.e.
   searches for a behaviour of Dfols.tla whose observable part passes through the snapshots in order.  Steps that leave the observable part
   unchanged (budget exits without an evaluation, pc moves, radius updates) are silent; at most MaxSilent of them between two snapshots.

   The value domain of the environment is narrowed, per step, to the values the next snapshot contains (EvalVals <- TraceVals in the configuration):
   a restriction of Dfols.tla, so every behaviour found is a behaviour of Dfols.tla.  The constants (budget, point count, options) are the run's own,
   written literally into the configuration; each run is one TLC process.

   Because the behaviour found IS a behaviour of Dfols.tla extended by l, the invariants of Appendix B are evaluated by TLC on every state of it:
   a real execution with real-size constants (budgets of 20-60 evaluations, not the 5-7 of the exhaustive configurations).

   Accepted  <=>  the search reaches the last snapshot (POSTCONDITION on the register that records the furthest snapshot matched). *)
EXTENDS Dfols, Json, IOUtils, TLCExt

CONSTANTS MaxSilent

Run == JsonDeserialize(IOEnv.TRACE_FILE)
Snaps == Run.snaps

VARIABLES l,      \* snapshots matched so far
          sil     \* silent steps taken since the last match
tvars == <<vars, l, sil>>

\* ------------------------------------------------------------------------------------- observation
ObsSlotsOf(p) == [k \in 1..p.npt |-> Slot(p.en[k], p.ns[k], p.obj[k])]
ObsSaveOf(p) == IF p.hassave THEN [has |-> TRUE, obj |-> p.objsave, en |-> p.ensave, ns |-> p.nssave] ELSE [has |-> FALSE, obj |-> 0, en |-> -1, ns |-> -1]
SaveProj(s) == [has |-> s.has, obj |-> IF s.has THEN s.obj ELSE 0, en |-> IF s.has THEN s.en ELSE -1, ns |-> IF s.has THEN s.ns ELSE -1]
\* the model part: slots, kopt, saved point (without its jacobian snapshot), jacobian snapshot, capacity; factorisation flag not compared
\* (Dfols.tla does not model base shifts and Lagrange queries, which move it)
ModelMatches(m, p) == /\ m.slots = ObsSlotsOf(p) /\ m.kopt = p.kopt + 1 /\ SaveProj(m.save) = ObsSaveOf(p)
                      /\ m.jacen = p.jacen /\ m.numpts = p.numpts
\* radius level: RhoLevels minus the number of reductions of rho in this run (since the last start or admitted soft restart), or "rho = rhoend" (-1)
RhoMatches(s, r, rend) == r = (IF s.rl = -1 THEN rend ELSE s.rl)
StateMatches(s, nf_, nx_, m) == nf_ = s.nf /\ nx_ = s.nx /\ ModelMatches(m, s.m)

\* message classes of the recorder -> message names of Dfols.tla
MsgOK(obs, spec) == CASE obs = "linalg" -> spec \in {"interp", "geom", "choose"}
                      [] obs = "unsucc" -> spec = "max_unsucc"
                      [] obs = "trinc" -> spec = "tr_increase"
                      [] obs = "falsesucc" -> spec = "false_success"
                      [] OTHER -> spec = obs
FlagOK(obs, spec) == CASE obs = 0 -> spec = "success"
                       [] obs = 1 -> spec = "maxfun"
                       [] obs = 2 -> spec = "slow"
                       [] obs = 3 -> spec = "false_success"
                       [] obs = -2 -> spec = "tr_increase"
                       [] obs = 5 -> spec = "tr_increase"      \* the same exit reported as a warning (projections)
                       [] obs = -3 -> spec = "linalg"
                       [] obs = -4 -> spec = "eval_error"
                       [] obs = 4 -> spec = "auto"
                       [] OTHER -> FALSE

\* values the environment may produce in the step towards the next snapshot
NextSnap == IF l < Len(Snaps) THEN Snaps[l + 1] ELSE Snaps[Len(Snaps)]
TraceVals == LET s == NextSnap IN
             IF s.kind = "state" THEN {s.m.obj[k] : k \in 1..s.m.npt} \cup (IF s.m.hassave THEN {s.m.objsave} ELSE {}) \cup {s.v[i] : i \in 1..Len(s.v)}
             ELSE {s.v[i] : i \in 1..Len(s.v)}

TraceEvalVals == TraceVals \cup {NaN, Inf}

TraceInit == Init /\ l = 0 /\ sil = 0

Observable == <<nf, nx, mdl.slots, mdl.kopt, SaveProj(mdl.save), mdl.jacen, mdl.numpts, rho>>

Step(s) ==
  CASE s.kind = "state" ->
         \/ /\ Next /\ pc # "runend" /\ StateMatches(s, nf', nx', mdl') /\ RhoMatches(s, rho', rhoendC') /\ l' = l + 1 /\ sil' = 0
         \/ /\ StateMatches(s, nf, nx, mdl) /\ RhoMatches(s, rho, rhoendC) /\ UNCHANGED vars /\ l' = l + 1 /\ sil' = 0      \* an event that changed nothing observable (refused save, failed fit)
    [] s.kind = "runend" ->
         /\ pc = "runend" /\ nf = s.nf /\ nx = s.nx /\ nruns = s.nruns
         /\ FlagOK(s.flag, exitInfo.flag) /\ MsgOK(s.msg, exitInfo.msg)
         /\ RunEnd /\ l' = l + 1 /\ sil' = 0
    [] s.kind = "return" ->
         /\ pc = "done" /\ nf = s.nf /\ nx = s.nx /\ nruns = s.nruns
         /\ FlagOK(s.flag, exitInfo.flag) /\ MsgOK(s.msg, exitInfo.msg)
         /\ best.has /\ best.obj = s.obj /\ best.en = s.en
         /\ UNCHANGED vars /\ l' = l + 1 /\ sil' = 0

Silent == /\ sil < MaxSilent /\ pc # "runend" /\ pc # "done"
          /\ Next /\ Observable' = Observable
          /\ UNCHANGED l /\ sil' = sil + 1

TraceNext == \/ l < Len(Snaps) /\ Step(Snaps[l + 1])
             \/ l < Len(Snaps) /\ Silent
TraceSpec == TraceInit /\ [][TraceNext]_tvars

\* batchlog is a history variable (it also records the first sample's objective, which the observable state does not determine once further samples
\* are averaged in): hidden from the fingerprint so that behaviours differing only there are one
CtlView == <<pc, nf, nx, nruns, mdl, rho, rhoendL, rhoendC, softLSR, softLastFopt, hardLSR, best, exitInfo, ptval, ptns, geomLeft, addLeft, restarts, x0inherit, ret, npt,
             reg, geomDone, phaseReq, l, sil>>

\* furthest snapshot matched (register 1) - read by the POSTCONDITION; needs -workers 1
ASSUME TLCSet(1, 0)
Progress == TLCSet(1, IF l > TLCGet(1) THEN l ELSE TLCGet(1))
TraceAccepted == /\ TLCGet(1) = Len(Snaps)
Report == PrintT(<<"CTL", Run.id, TLCGet(1), Len(Snaps)>>)
Post == Report /\ TraceAccepted
====================================================================================================
