#!/bin/sh
# usage: tools/verify_mutant.sh <dir with patch.diff, demo.py> <check>...
# In a scratch worktree of /repo (never /repo itself): the repository's tests must pass with the change, the demonstration must fail with it and pass without
# it; then the listed quick checks are run against the changed worktree (DFOLS_REPO).  The worktree is removed on exit.
D="$1"; shift
N=$(basename "$D")
WT=/tmp/wt/vm_$$
git -C /repo worktree add -q --detach $WT HEAD || exit 2
trap 'git -C /repo worktree remove --force '$WT EXIT INT TERM
DEMO="$D/demo.py"; [ -f "$D/demo_rebased.py" ] && DEMO="$D/demo_rebased.py"
( cd $WT && PYTHONPATH=$WT timeout 600 /venv/bin/python "$DEMO" >/dev/null 2>&1 ); c0=$?
git -C $WT apply "$D/patch.diff" || { echo "$N: patch does not apply"; exit 2; }
( cd $WT && PYTHONPATH=$WT timeout 600 /venv/bin/python "$DEMO" >/dev/null 2>&1 ); c1=$?
t=$( cd $WT && /venv/bin/python -m pytest -q -p no:cacheprovider --timeout=900 -x 2>&1 | tail -1 )
echo "$N: demo clean=$c0 mutant=$c1 tests: $t"
for c in "$@"; do
  out=$(DFOLS_REPO=$WT DFOLS_VERIF_OUT=${MUT_OUT:-/tmp/mut_out} /verif/bin/check "$c" ${TIER:+--tier $TIER} 2>&1); rc=$?
  echo "[$N $c] rc=$rc  $(echo "$out" | grep '^VIOLATION' | sed 's/.*clause=\([^ ]*\).*/\1/' | sort | uniq -c | sort -rn | head -5 | awk '{printf "%s(x%s) ", $2, $1}')"
  [ $rc -ge 2 ] && echo "$out" | tail -5
done
