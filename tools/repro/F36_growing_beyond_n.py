"""F-36 (known finding): growing.ndirs_initial < n with npt > n+1 and a start on the bounds - dfols.solve raises instead of returning a result.
Run:  PYTHONPATH=/repo /venv/bin/python tools/repro/F36_growing_beyond_n.py     (prints the exceptions; exit 1 when one is raised)
The family: random linear residuals, n in {2, 3, 5}, a box around 0, x0 uniform in the box with 1..n coordinates on their lower bounds, npt in {n+1, 2n+1}."""
import sys
import warnings

import numpy as np
import dfols

warnings.simplefilter("ignore")
bad = tot = 0
for seed in range(400):
    rng = np.random.default_rng(seed)
    n = int(rng.choice([2, 3, 5]))
    m = n + int(rng.integers(0, 3))
    A, b = rng.normal(size=(m, n)), rng.normal(size=m)
    xl, xu = -np.ones(n) * rng.uniform(0.5, 2), np.ones(n) * rng.uniform(0.5, 2)
    x0 = rng.uniform(xl, xu)
    idx = rng.choice(n, size=rng.integers(1, n + 1), replace=False)
    x0[idx] = xl[idx]
    npt = int(rng.choice([n + 1, 2 * n + 1]))
    tot += 1
    np.random.seed(seed)
    try:
        dfols.solve(lambda x: A @ x - b, x0.copy(), bounds=(xl, xu), npt=npt, maxfun=40, user_params={"growing.ndirs_initial": 1})
    except Exception as e:  # noqa
        bad += 1
        print("seed %d (n = %d, npt = %d, coordinates on the lower bound: %s): %s: %s" % (seed, n, npt, sorted(idx.tolist()), type(e).__name__, e))
print("%d of %d runs raise" % (bad, tot))
sys.exit(1 if bad else 0)
