import json, glob, sys
import jsonschema
jsonschema.validate(json.load(open('/verif/MANIFEST.json')), json.load(open('/root/.vp/MANIFEST.schema.json')))
n=0
for f in sorted(glob.glob('/verif/evidence/*.json')):
    jsonschema.validate(json.load(open(f)), json.load(open('/root/.vp/EVIDENCE.schema.json'))); n+=1
print('manifest valid;', n, 'evidence files valid')
