#!/bin/sh
# usage: tools/seedsweep.sh "<seeds>" [tier] [checks...]   -- run checks under several seeds; print only alarms and failures
SEEDS="$1"; TIER="${2:-quick}"; shift 2 2>/dev/null
CHECKS="${*:-C01 C02 C03 C04 C05 C06 C07 C08 C09 C10 C11 C12 C13 C14 C15 C16 C17 C18 C19 C20}"
cd "$(dirname "$0")/.."
for s in $SEEDS; do for c in $CHECKS; do
  out=$(VERIF_SEED=$s bin/check $c --tier $TIER 2>&1); rc=$?
  if [ $rc -ne 0 ]; then echo "### seed=$s $c rc=$rc"; echo "$out" | grep -E "VIOLATION|MACHINERY|Error" | head -5 | cut -c1-400; else echo "ok seed=$s $c $(echo "$out" | grep -c KNOWN-FINDING) known"; fi
done; done
