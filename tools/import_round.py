#!/usr/bin/env python3
"""tools/import_round.py <round> <out_dir_prefix> <results_dir> <id>...: copy a verified seeded change (patch.diff, demo.py, meta.json written by its
author, plus what was run here) into seeded/R<round>_<id>_a/"""
import json, os, shutil, sys
rnd, prefix, resdir = sys.argv[1:4]
for cid in sys.argv[4:]:
    src = "%s%s" % (prefix, cid)
    dst = "/verif/seeded/R%s_%s_a" % (rnd, cid)
    os.makedirs(dst, exist_ok=True)
    for f in ("patch.diff", "demo.py"):
        shutil.copy(os.path.join(src, f), dst)
    m = json.load(open(os.path.join(src, "meta.json")))
    lines = [l.rstrip() for l in open(os.path.join(resdir, cid + ".txt")) if l.strip()]
    meta = dict(id="R%s_%s_a" % (rnd, cid), round=int(rnd), property=m.get("property", cid), written_for_property=cid, files=m.get("files", []), summary=m.get("summary", ""),
                needs=m.get("needs", ""), why_tests_pass=m.get("why_tests_pass", ""),
                origin="independent sub-agent (round %s: one change, asked for a mechanism that needs something specific to manifest) given only the property text and a scratch worktree" % rnd,
                verified_here="scratch worktree of /repo at HEAD (tools/verify_mutant.sh): demo on the clean tree, git apply patch.diff, demo again, pytest (118 pinned tests). Result: " + lines[0],
                first_run_against_quick_checks=lines[1:], note="")
    json.dump(meta, open(os.path.join(dst, "meta.json"), "w"), indent=1)
    print(dst)
