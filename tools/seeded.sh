#!/bin/sh
# usage: tools/seeded.sh <patch.diff> <check id>...   -- apply a seeded change to /repo, run the quick checks, undo it
P="$1"; shift
cd /repo || exit 2
git diff --quiet || { echo "/repo has uncommitted changes"; exit 2; }
git apply "$P" || { echo "patch does not apply"; exit 2; }
trap 'git -C /repo checkout -- . ' EXIT INT TERM
for c in "$@"; do
  out=$(/verif/bin/check "$c" ${TIER:+--tier $TIER} 2>&1); rc=$?
  echo "[$c] rc=$rc $(echo "$out" | grep -c '^VIOLATION') violation line(s): $(echo "$out" | grep '^VIOLATION' | head -2 | cut -c1-260)"
  [ $rc -ge 2 ] && echo "$out" | tail -5
done
