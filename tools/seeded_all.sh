#!/bin/sh
# run every seeded change against a list of quick checks in a scratch worktree (never in /repo); prints one line per (change, check)
# usage: [ONLY=<regex on change ids>] [VERIF_SEED=s] tools/seeded_all.sh <outfile> [shard nshards] ; map of change -> checks below   (shards run side by side, each in its own worktree and output directory)
SHARD="${2:-0}"; NSH="${3:-1}"
WT=/tmp/wt/seedrun$SHARD
MUT_OUT=${MUT_OUT:-/tmp/mut_out}$SHARD
git -C /repo worktree remove --force $WT 2>/dev/null
git -C /repo worktree add -q --detach $WT HEAD || exit 2
OUT="$1"; : > "$OUT"
checks_for() { case "$1" in
  C01_*) echo "C01";; C02_*) echo "C02";; C03_a) echo "C03 C17";; C03_b) echo "C03";; C04_*) echo "C04";; C05_a) echo "C05 C12";; C05_b) echo "C05";;
  C06_a) echo "C06";; C06_b) echo "C06 C17 C03";; C07_a) echo "C07";; C07_b) echo "C07 C10";; C08_a) echo "C08 C17";; C08_b) echo "C08";; C09_*) echo "C09";;
  C10_*) echo "C10";; C11_*) echo "C11";; C12_*) echo "C12";; C13_*) echo "C13";; C14_*) echo "C14";; C15_*) echo "C15 C09";; C16_*) echo "C16";;
  C17_*) echo "C17";; C18_*) echo "C18";; C19_*) echo "C19";; C20_*) echo "C20";;
  R2_C01_a) echo "C01 C09";; R2_C01_b) echo "C01";; R2_C02_*) echo "C02";; R2_C03_*) echo "C03";; R2_C04_*) echo "C04";; R2_C08_*) echo "C08";; R2_C09_*) echo "C09";;
  R2_C10_*) echo "C10";; R2_C11_*) echo "C11";; R2_C17_*) echo "C17";; R2_C18_a) echo "C18 C04";; R2_C18_b) echo "C18 C10";;
  R3_C*|R4_C*|R5_C*|R6_C*|R7_C*|R8_C*|R9_C*|R10_C*) echo "$1" | sed 's/R[0-9]*_\(C[0-9]*\)_.*/\1/';; esac; }
for d in /verif/seeded/C??_? /verif/seeded/R2_C??_? /verif/seeded/R3_C??_? /verif/seeded/R4_C??_? /verif/seeded/R5_C??_? /verif/seeded/R6_C??_? /verif/seeded/R7_C??_? /verif/seeded/R8_C??_? /verif/seeded/R9_C??_? /verif/seeded/R10_C??_?; do
  id=$(basename $d)
  [ -d "$d" ] || continue
  if [ -n "$ONLY" ]; then echo "$id" | grep -Eq "$ONLY" || continue; fi
  K=$((${K:-0}+1)); [ $((K % NSH)) -eq "$SHARD" ] || continue
  P=$d/patch.diff; [ -f $d/patch_rebased.diff ] && P=$d/patch_rebased.diff
  (cd $WT && git checkout -q -- . && git apply $P) || { echo "$id APPLY_FAILED" >> "$OUT"; continue; }
  for c in $(checks_for $id); do
    out=$(DFOLS_REPO=$WT DFOLS_VERIF_OUT=${MUT_OUT:-/tmp/mut_out} /verif/bin/check $c 2>&1); rc=$?
    echo "$id $c rc=$rc clauses: $(echo "$out" | grep '^VIOLATION' | sed 's/.*clause=\([^ ]*\).*/\1/' | sort | uniq -c | sort -rn | head -4 | awk '{printf "%s(x%s) ", $2, $1}')" >> "$OUT"
  done
done
(cd $WT && git checkout -q -- .); git -C /repo worktree remove --force $WT
echo DONE >> "$OUT"
