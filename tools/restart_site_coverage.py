"""one-off measurement (DESIGN 0.8): which copies of the restart boilerplate in solve_main the C10/C18 corpora exercise (sys.monitoring line counts)"""
import sys, collections, re
sys.path.insert(0,'/verif')
import numpy as np
from harness import solverchecks as sc, vlib, strace, recorder
vlib.import_dfols()
import dfols.solver as S
src=open(S.__file__).read().splitlines()
sites=[i+1 for i,l in enumerate(src) if "control.soft_restart(" in l or 'nruns_so_far += 1' in l]
hits=collections.Counter()
code=S.solve_main.__code__
mon=sys.monitoring
mon.use_tool_id(4,"cov")
def on_line(c, line):
    if line in siteset: hits[line]+=1
    else: return mon.DISABLE
siteset=set(sites)
mon.register_callback(4, mon.events.LINE, on_line)
mon.set_local_events(4, code, mon.events.LINE)
insts = sc.corpus_C10("quick")+sc.corpus_C18("quick")+sc.corpus_C03("quick")[:200] if hasattr(sc,"corpus_C03") else sc.corpus_C10("quick")+sc.corpus_C18("quick")
print(len(insts))
for inst in insts:
    try: recorder.record(inst, timeout=60)
    except BaseException as e: print("err", type(e))
for s in sites:
    print(s, hits[s], src[s-1].strip()[:70])
