#!/bin/sh
# usage: tools/seeded_one.sh <dir with patch.diff> <check>...  -- apply in a scratch worktree (never /repo), run quick checks with DFOLS_REPO, clean up
D="$1"; shift
WT=/tmp/wt/one_$$
git -C /repo worktree add -q --detach $WT HEAD || exit 2
trap 'git -C /repo worktree remove --force '$WT EXIT INT TERM
git -C $WT apply "$D/patch.diff" || { echo "patch does not apply"; exit 2; }
for c in "$@"; do
  out=$(DFOLS_REPO=$WT DFOLS_VERIF_OUT=${MUT_OUT:-/tmp/mut_out} /verif/bin/check "$c" ${TIER:+--tier $TIER} 2>&1); rc=$?
  echo "[$(basename $D) $c] rc=$rc  $(echo "$out" | grep '^VIOLATION' | sed 's/.*clause=\([^ ]*\).*/\1/' | sort | uniq -c | sort -rn | head -5 | awk '{printf "%s(x%s) ", $2, $1}')"
  [ $rc -ge 2 ] && echo "$out" | tail -5
done
