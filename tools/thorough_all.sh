#!/bin/sh
# run every thorough check once (seed from $VERIF_SEED, default 0); one summary line each
cd "$(dirname "$0")/.."
for c in ${*:-C14 C20 C15 C12 C13 C16 C19 C09 C05 C06 C07 C01 C11 C18 C17 C02 C03 C04 C08 C10}; do
  t0=$(date +%s); out=$(bin/check $c --tier thorough 2>&1); rc=$?; t1=$(date +%s)
  echo "$c rc=$rc $((t1-t0))s $(echo "$out" | grep -c '^KNOWN-FINDING') known"
  if [ $rc -ne 0 ]; then bad=1; echo "$out" | grep -E "VIOLATION|MACHINERY|Error" | head -6 | cut -c1-500; fi
done
exit ${bad:-0}
