#!/usr/bin/env python3
"""seeded/RESULTS.md from the output of tools/seeded_all.sh (one line per (change, check)) and the meta.json files."""
import collections
import json
import os
import re
import sys

HERE = os.path.dirname(os.path.dirname(os.path.abspath(__file__)))


def main(path):
    res = collections.OrderedDict()
    for l in open(path):
        m = re.match(r"(\S+) (C\d+) rc=(\d+) clauses: (.*)", l)
        if m:
            res.setdefault(m.group(1), []).append((m.group(2), int(m.group(3)), m.group(4).strip()))
    out = ["# Seeded changes against the quick checks", "",
           "Every change was produced by an independent sub-agent that saw only the text of one property and a scratch worktree, was re-verified here in a scratch",
           "worktree (the 118 pinned tests pass with it; its demonstration fails with it and passes without it), and was run against the quick checks in a scratch",
           "worktree (`tools/seeded_all.sh`, never in /repo).  `rc=1` = the check reports a violation; the clauses are the ones named in its VIOLATION lines.", "",
           "| change | written for | needs | check: result (clauses) |", "|---|---|---|---|"]
    missed = []
    for d in sorted(os.listdir(os.path.join(HERE, "seeded"))):
        mp = os.path.join(HERE, "seeded", d, "meta.json")
        if not os.path.isfile(mp):
            continue
        meta = json.load(open(mp))
        rows = res.get(d, [])
        cell = "; ".join("%s: rc=%d %s" % (c, rc, ("(" + cl + ")") if cl else "") for c, rc, cl in rows) or "not run"
        if rows and not any(rc == 1 for _, rc, _ in rows):
            missed.append(d)
        needs = (meta.get("needs") or "").replace("|", "/").replace("\n", " ")
        out.append("| %s | %s | %s | %s |" % (d, meta.get("written_for_property") or meta.get("property"), needs[:260] + ("…" if len(needs) > 260 else ""), cell))
    out += ["", "%d changes; reported by at least one quick check: %d; not reported: %s" % (len(res), len(res) - len(missed), ", ".join(missed) or "none")]
    open(os.path.join(HERE, "seeded", "RESULTS.md"), "w").write("\n".join(out) + "\n")
    print("changes", len(res), "missed", missed)


if __name__ == "__main__":
    main(sys.argv[1])
