#!/usr/bin/env python3
"""Regenerates MANIFEST.json from the table below (single source of truth for the interface file)."""
import json, os, subprocess
HERE = os.path.dirname(os.path.dirname(os.path.abspath(__file__)))

def repo_fix_commits():
    out = subprocess.run(["git", "-C", "/repo", "log", "--format=%h %s"], stdout=subprocess.PIPE, text=True).stdout
    return [l for l in out.splitlines() if l.split(" ", 1)[1].startswith("fix:")]

CHECKS = {
 "C01": ("exploration", "trace validation over position classes (DfolsTrace.tla) + BaseShift.tla small-float model",
         "Every residual-function call and the returned x of a generated corpus (x0 placements x bound kinds x scaling x restarts x regression/growing x regulariser x projections) is classified against the caller's own bound arrays with exact binary64 comparisons by the recorder; the trace specification requires every class to be inside. Exploration level: the inequality itself cannot be decided by TLC.",
         "recorder wrappers are pass-through; corpus classes fixed, VERIF_SEED concretises", "5 C01"),
 "C02": ("model_checking", "TLC on Dfols.tla (budget/counter invariants, all budgets x exit sites) + Budget.tla inductive invariant (Apalache) + trace validation with budget sweeps + driven replay (spec -> code) + DfolsCtl.tla (code -> spec: recorded runs are behaviours of Dfols.tla)",
         "TLC explores Dfols.tla exhaustively for small constants (every value ordering incl. NaN, every budget position, soft/hard restarts, 1-2 samples) with the C02 invariants; real runs with maxfun swept over every value up to the reference cost are validated event by event against DfolsTrace.tla (call index, the code's own log numbering, batches, counters threaded through runs).",
         "small constants in the exhaustive model; numerical kernels abstracted", "5 C02"),
 "C03": ("model_checking", "TLC on Dfols.tla/DfolsModel.tla (slot designates its evaluation) + trace validation with per-slot identity classes + driven replay + DfolsCtl.tla",
         "Invariants C03_EveryIter/C03_Returned model-checked over all restart histories within bounds; on real traces every Model method call is predicted by the DfolsModel operators and each slot / the saved slot / the result must designate the recorded evaluation it names.",
         "identity classes use 256 eps (points) and 1e-12 (residual means) tolerances", "5 C03"),
 "C04": ("model_checking", "TLC on Dfols.tla (best-kept invariants) + trace validation in rank space + driven replay + DfolsCtl.tla",
         "C04_BestKept/C04_EveryIter/C04_Monotone model-checked with every evaluation in turn the best on every exit path; real deterministic runs (incl. convex-constrained and fault overlays) validated with exact rank comparisons of recomputed objectives.",
         "deterministic objective, one sample (as the property states); regularised runs compared with 1e-12 relative slack", "5 C04"),
 "C08": ("model_checking", "TLC on Dfols.tla with NaN/Inf values + fault-script trace validation (value faults and exception types) + driven replay + DfolsCtl.tla",
         "Every fault kind at every evaluation index of reference runs (and at the last evaluation the budget allows) across configurations; clauses: no exception unless opted in, budget/bounds, finite evaluated x, finite best retained, injected exception propagates unchanged and no call follows.",
         "value-fault positions swept with a stride in the quick tier; LinAlgError / ValueError faults at every position", "5 C08"),
 "C09": ("model_checking", "trace validation: only-after-projection clause + Dykstra stop-rule machine over observed projector calls",
         "Every evaluation point must be the output of a model/solver-site alternating-projection call; the stop rule of each call is decided by the specification from a bit-exact shadow of the routine's own arithmetic; feasibility classes computed with the property's sqrt(p*tol).",
         "user projectors are the harness's own exact projectors", "5 C09"),
 "C10": ("model_checking", "TLC on Dfols.tla (exit-truth invariants, liveness) + Return clauses on traces + driven replay + DfolsCtl.tla",
         "C10_* invariants and termination (liveness under weak fairness) model-checked; on traces the flag/message facts are recomputed from arguments and observed events (threshold from the harness's own f(x0), documented rhoend rescaling, call counts, run counts).",
         "thresholds computed from the arguments, never read back from the code", "5 C10"),
 "C11": ("model_checking", "TLC snapshot invariant + trace prediction of jacmin_eval_nums + independent fit class",
         "The evaluation numbers returned with the Jacobian must equal the snapshot predicted by the specification (exact integers); the Jacobian is compared with an independent least-squares fit of the recorded residuals at the named points with a conditioning-scaled tolerance.",
         "fit tolerance 1e3*eps*cond*(1+|X|/spread)*max(1,|R|/(spread*|J|)), evaluated only when < 1e-3", "5 C11"),
 "C18": ("model_checking", "TLC radius-level invariants (Dfols.tla) + Radii.tla (reduce_rho as exact arithmetic, every state replayed on the real method) + diagnostic-table row clauses and live radius writes on traces + DfolsCtl.tla",
         "Radius invariants model-checked on levels; Radii.tla enumerates every class of rho/rhoend, alpha1 and alpha2 with the radius clauses as invariants and each state is replayed bit-exactly on the real Controller.reduce_rho; every row of soln.diagnostic_info and every live write to delta/rho of real runs is checked against the clauses of the property (ranks; documented rhoend rescaling computed by the harness).",
         "", "5 C18"),
 "C19": ("model_checking", "ConvexInit.tla (TLC: random repair phases unreachable where a deterministic repair exists) replayed state by state into dfols.solve + trace equality in TLC: each instance run under two generator states and after an unrelated solve",
         "ConvexInit.tla models the convex-constrained initialisation with the generator's choices nondeterministic; TLC proves DetSufficient/DetUnique and enumerates every reachable final set; each initial state is realised on the real solve three times (two generator states, after an unrelated solve) and the evaluation sequences must be bit-identical where the random phases are unreachable. Solver corpus: three recorded behaviours per instance (each in a process of its own) must be identical event for event (digests of the raw events, result digest); caller data compared with deep copies.",
         "configurations without documented random options; ConvexInit.tla abstracts projected coordinate steps to their own axis", "5 C19 and 0.2"),
 "C05": ("exploration", "Problems.tla KKT-pattern enumeration -> constructed optimum -> validated solver trace with final optimality clause",
         "TLC enumerates every KKT pattern (free / at lower / at upper per coordinate x shape x x0 placement x scaling x point count x conditioning); instances are built so that the optimality conditions hold by construction at a known x*; the real solver (default budget) runs under the recorder, the trace is validated against DfolsTrace.tla and the final clauses require feasibility, the success flag and obj - f* <= 1e-6(1+f*). TLA+ does not decide convergence: exploration level.",
         "patterns enumerated for n <= 3 (quick) / 4 (thorough), dimensions 8-13 sampled, face classes (start on the active face, warm start) at dimensions 4-6; cond <= 1e3; optimum known by construction; one known finding (linear-algebra exit at the optimum with many active bounds)", "5 C05 and 2.4"),
 "C06": ("exploration", "Problems.tla subgradient-pattern enumeration -> constructed regularised optimum -> validated solver trace",
         "As C05 for l1 / l2-norm regularisers (positive / negative / zero-strict / zero-at-kink / bound-active patterns), lambda over 3 decades (the special class strong_regulariser: 3-4 decades above |A|^2), soft restarts that append points, argsh/argsprox pass-through checked; final clauses: objective within 1e-3(1+F*), success flag.",
         "n <= 3, cond <= 1e2; the success-flag clause has one known finding (slow-progress warning at the optimum)", "5 C06 and 2.4"),
 "C07": ("model_checking", "DfolsApi.tla decision tables replayed state by state into dfols.solve (R-Api) + Dfols.tla flag/termination + restart corpus",
         "TLC enumerates every argument-class combination (in the code's validation order), every key x value class of the 71 user parameters and the unknown key, with the predicted outcome; each state is one real solve call whose outcome must match. The control model proves the returned flag documented on every path and termination under fairness (this found F-24); restart-heavy real runs are validated for documented flags.",
         "key table transcribed once into the specification; None values are not a class", "5 C07"),
 "C12": ("exploration", "Kernels.tla class-pattern enumeration -> concretised trsbox calls -> contract clauses in the trace specification (+ every in-solver call); Trsbox.tla (kernel machine) model-checked and monitored calls of the real kernel validated snapshot by snapshot (TrsboxTrace.tla)",
         "Exhaustive class patterns (position of each coordinate w.r.t. its bounds x gradient sign x Hessian kind) for n <= 2/3, sampled to n = 8, several scalings each; contract classes (box, norm, model decrease, Cauchy decrease, gradient identity) computed in binary64 by the harness and evaluated by DfolsTrace.tla; the same clauses judge every trsbox call observed inside recorded solver runs.",
         "explored domain |xopt| <= 100*delta; clauses allow for the rounding of d = (xopt+d)-xopt only; in-solver calls judged inside the scale domain 1e-8 <= |g|, delta <= 1e8, |H|*delta <= 1e8*|g|", "5 C12"),
 "C13": ("exploration", "Kernels.tla class patterns -> trsbox_geometry / ctrsbox_* calls and in-solver regularised steps -> contract clauses; Sfista.tla (iteration-count machine of the regularised step solver) and TrsboxLinear.tla (active-set loop of the geometry step) model-checked and bound to monitored calls (conformance notes)",
         "As C12 for the geometry solver (box to 1e-12, ball, global maximum against a bisection oracle, never worse than the zero step), the convex step kernels (norm bound) and the regularised step handed to the main loop (predicted reduction recomputed with the code's formula, observed in real regularised runs with bounds and with projections).",
         "gradient components 0 or >= 1e-10", "5 C13"),
 "C14": ("model_checking", "InitSet.tla exact lattice transcription, R-Init exact replay; DirGen.tla active-set patterns replayed into the generators",
         "TLC enumerates every placement of x0 relative to each bound (34 per coordinate) x npt and checks the C14 invariants on the lattice; every configuration is replayed on the real solve with dyadic data and the evaluated points must equal the prediction exactly; condition number computed on the real points; generator contracts over all active-set patterns.",
         "n <= 2 quick / 3 thorough for the exact replay; one known finding (2*delta block)", "5 C14"),
 "C15": ("model_checking", "Dykstra.tla sweep machine (TLC, with termination) + stop-rule clause evaluated on every observed projector call of direct dykstra calls",
         "The stop rule is decided by the specification from per-sweep bits recomputed bit-exactly by the recorder; feasibility sqrt(p*tol), distance to a machine-precision reference projection, idempotence, exact last box, sweep cap.",
         "harness's own exact projectors", "5 C15"),
 "C16": ("model_checking", "ModelMC.tla factorisation-flag invariant + identity classes on random interleavings of the real Model validated by the trace specification",
         "Flag logic model-checked exhaustively; interpolation / normal-equation / Lagrange / base-shift / cached-QR identities evaluated by the driver with a conditioning-scaled tolerance after random interleavings of replacement, shifts and re-fits; flags predicted by the DfolsModel operators at every call.",
         "tolerance 1e3*eps*cond*(1+|points|/spread); unbounded and finite tight boxes; the interpolation point of an identity is the point the driver evaluated (its own record)", "5 C16"),
 "C17": ("model_checking", "ModelMC.tla exhaustive + R-Model replay of TLC behaviours on the real Model (exact) + random-sequence trace validation",
         "All operation sequences to the depth bound over values with ties/NaN/+Inf are model-checked; TLC simulation behaviours (depth 12 and 50) are stepped through the real Model with exact comparison of the full projected state, with and without a regulariser; random sequences on the real Model are validated against the same operators.",
         "exact replay needs <= 2 samples per slot", "5 C17"),
 "C20": ("model_checking", "DfolsApi.tla result-kind table replayed into OptimResults (R-Result) + every result of a solver corpus round-tripped",
         "TLC enumerates all 13 824 field-kind combinations; each is built, serialised strictly, reloaded and printed; every result of a solver corpus (all reachable flags, diagnostics, sizes beyond printing thresholds, NaN overlays) goes through the same oracle.",
         "infinite entries outside the property's letter; save_xk/save_rk documented limitation", "5 C20"),
}
NOT_YET = {}

def main():
    props = [json.loads(l) for l in open(os.path.join(HERE, "properties.jsonl"))]
    checks, na = [], []
    for p in props:
        i = p["id"]
        if i in CHECKS:
            level, tech, text, note, ref = CHECKS[i]
            checks.append(dict(property_id=i, quick_cmd="bin/check %s --tier quick" % i, thorough_cmd="bin/check %s --tier thorough" % i,
                               evidence_file="/verif/evidence/%s.json" % i, replay_cmd_template="bin/check %s --replay {path}" % i,
                               engine="tlc+trace", level_claimed=dict(category=level, text=text, design_ref="DESIGN.md section " + ref),
                               level_note=note or "see DESIGN.md", technique=tech))
        else:
            na.append(dict(property_id=i, reason=NOT_YET.get(i, "check not registered yet in this revision (construction in progress, see DESIGN.md section 9)")))
    man = dict(version=1, setup_cmd="true",
               hooks=dict(guard="DFOLS_VERIF", enable="no source hooks: the harness re-binds dfols module globals at run time (bin/check sets DFOLS_VERIF=1)",
                          baseline_off_cmd="cd /repo && env -u DFOLS_VERIF /venv/bin/python -m pytest -ra -q -p no:cacheprovider --timeout=900 --continue-on-collection-errors",
                          source_commits=[], add_only=True),
               engines=[dict(name="tlc+trace", path="/verif/bin/check", serves_properties=sorted(CHECKS), kind_free_text="TLC 1.8 model checking of spec/*.tla + trace validation of recorded executions of /repo + replay of TLC behaviours into /repo")],
               checks=checks, not_applicable=na,
               notes="fix: commits in /repo: " + "; ".join(repo_fix_commits()))
    json.dump(man, open(os.path.join(HERE, "MANIFEST.json"), "w"), indent=1)
    print("checks", len(checks), "not_applicable", len(na))

if __name__ == "__main__":
    main()
